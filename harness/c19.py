"""C19 - CLI and Python entry points agree; list-in-file options equal repeated options.

Relations
  resolve : transform / simphenotype / ld invoked through click's CliRunner with the Python entry
            point replaced by a recorder: what (samples, ids) it receives for every way of
            spelling the selection (-s/--sample, -S/--samples-file, -i/--id, -I/--ids-file, both
            forms), for every shape a user writes the file in (LF, unterminated last line, CRLF,
            CRLF unterminated, a blank last line) and odd layouts, and the same selection spelled
            the other way (a file of that shape <-> repeated options)
  cli     : all seven subcommands run for real through CliRunner and through the documented
            Python entry point on the same parameters, once more respelled (short <-> long,
            file of the drawn shape <-> repeated options) and, when the selection names unknown
            entries, once more without them; outputs compared line by line, exit codes,
            samples/IDs present in the output, the warnings the command PRINTED (what CliRunner captured
            of stderr, parsed back into log lines) and which of the output files the subcommand documents
            exist afterwards.  The runs of a case are made in one process in a drawn order, with drawn
            earlier runs ("history": the same subcommand at another verbosity, through the Python entry
            point without a logger, another subcommand) in between: nothing judged may depend on them.  Every
            subcommand is also run in configurations meant to fail (FAIL_CLASSES); index --no-sort
            is compared with the model of index_haps' tail (order of the data lines -> exit status)
"""
import gzip
import hashlib
import os
import re
import shutil
import tempfile

import numpy as np

from . import coqlit as L
from .core import Relation, err_kind

PROP = "C19"
CLAIMED = True
COQ_MODULES = ["C19_Check", "C19_Proofs", "C19_ProofsExit", "C19_ProofsLog"]
PROPERTY_MODULE = "C19_Property"
ALLOWED_AXIOMS = []


# Translation validation (harness/README.md): the option post-processing of the click commands transform, simphenotype
# and ld - the top-level statements of haptools/__main__.py from `if samples and samples_file: raise click.UsageError`
# up to and including the call of the Python entry point - is regenerated from the current source on every run
# (harness/pytrans.py -> HVG.Gen_Main) and proved equal to C19_Model.resolve_samples / resolve_ids / front_end for all
# option tuples and file texts (coq/translated/TV_C19.v).
def _front(cmd, entry, extra=()):
    return ("haptools/__main__.py", cmd, {
        "name": f"{cmd}_front", "top": True,
        "start": {"if_and_names": ["samples", "samples_file"]}, "stop": {"through_call": entry},
        "params": ["samples", "samples_file", "ids", "ids_file"] + list(extra), "result": None,
        # what the encoders of TVM_C19.v assume about the four parameters, checked on the @click.option declarations:
        # a repeated str option is a tuple of str, a click.File("r") option is None or one open text file
        "click_options": {"samples": "multi_str", "samples_file": "file_r", "ids": "multi_str", "ids_file": "file_r"}})


TRANSLATION = {
    "spec": {
        "module": "Gen_Main",
        "text": True,
        # `with samples_file as samps_file:` = `samps_file = samples_file` (an open file's __enter__ returns itself)
        "with_names": True,
        "dotted_raises": {"click.UsageError": "UsageError"},
        # file.read() and str.splitlines() are not translated: Section variables extm_read / extm_splitlines
        "ext_methods": ["read", "splitlines"],
        # the call of the entry point appends (samples, ids) - its arguments at these positions - to the list "$out"
        "outputs": {"transform_haps": {"stream": "$out", "args": [3, 4]},
                    "simulate_pt": {"stream": "$out", "args": [8, 9]},
                    "calc_ld": {"stream": "$out", "args": [4, 5]}},
        "ignore_calls": ["log.error"],
        "functions": [_front("transform", "transform_haps"),
                      _front("simphenotype", "simulate_pt", ["heritability", "environment", "normalize"]),
                      _front("ld", "calc_ld")],
    },
    "models": ["TVM_C19"],
    "proofs": ["TV_C19"],
}
RULE = (
    "resolve: an invocation that restricts samples and/or IDs with >= 2 entries or through a file (incl. duplicates, "
    "unknown entries, LF / unterminated / CRLF / blank-last-line / blank-line-inside / vertical-tab / U+2028 / empty "
    "files, both forms). cli: a run of one of the seven subcommands that completes and writes non-empty output, or one "
    "that restricts samples/IDs (incl. unknown entries, both forms, every file shape), or one of a class of configuration "
    "meant to fail (every subcommand: output directory absent; transform/simphenotype/ld: a missing call, only unknown "
    "IDs, an absent target, a repeat without --repeats, --ancestry without ancestry; index --no-sort on lines tabix "
    "refuses; clump: a column that is not there; simgenotype: a chromosome / model it rejects; karyogram: an absent "
    "sample). The runs of a cli case are made in one process in a drawn order, with drawn earlier runs in between. "
    "Distinct = distinct canonical JSON."
)
TRUSTED = [
    "click: parses the command line and passes declared option values (repeated options as a tuple, click.File as an "
    "open text file); UsageError -> exit 2 and the 'Usage: ... Error: ...' text, other exception -> exit 1 (the model "
    "covers only the option-resolution logic of haptools/__main__.py)",
    "str.splitlines boundaries as documented (\\n \\r \\r\\n \\v \\f \\x1c-\\x1e \\x85 \\u2028 \\u2029); strings are code-point lists",
    "interning of output lines to integers (injective per case); PNG / .tbi / PGEN / BCF outputs compared as SHA-256 of bytes",
    "what a command-line run reports is what it PRINTS: the text click's CliRunner captured of stderr (click >= 8.2: "
    "Result.stderr; older: Result.output), parsed back by the harness into log lines - '[   LEVEL(|time)] message "
    "(file:line)' as haptools/logging.py formats them, a message may span lines - of level >= WARNING and the lines "
    "warnings.showwarning wrote ('file:line: Category: message'; an 'always' filter is in force so that warnings are "
    "not deduplicated across the cases a worker runs); a message is split into words at whitespace, with "
    "[]{}()'\"`,:;. stripped from both ends of a word, and words are interned",
    "the log records that come into being on the subcommand's logger 'haptools.<subcommand>' are observed through "
    "logging.setLogRecordFactory (no handler or filter is attached to any logger); the harness empties the handler "
    "lists and levels of the haptools loggers at the START of a case (a worker runs many cases; a case stands for one "
    "process) and never inside one; logging.raiseExceptions is off while a run is observed; the getLogger calls a "
    "case makes before its command-line run (c_calls) are the ones the harness arranged (one per command-line run: "
    "-v level, a stream of its own; one per call of an entry point: the level of the logger handed over, or ERROR when "
    "it is left to make its own; the process's stderr) - on the model of the code as it is they provably do not "
    "matter (C19_log_history_independent), so a wrong presumption cannot produce a disagreement",
    "harness-side writers of the inputs (bgzip/tabix via pysam, BCF via pysam.bcftools, PGEN via pgenlib, C01's "
    "model/map files, C11's .hap files, C17's clump inputs)",
    "the list of output files each subcommand documents (harness doc_outputs: transform -o FILE, or FILE.pgen + .pvar + "
    ".psam; simphenotype -o FILE; ld -o FILE; index <out> and <out>.tbi with <out> = -o or <input>.gz; clump --out FILE; "
    "simgenotype <prefix>.bp and, unless --only_breakpoint, --out FILE (+ .pvar/.psam for PGEN); karyogram --out FILE) "
    "and os.path.exists as the test that one was written",
    "htslib's tabix (via pysam.tabix_index) refuses exactly the line orders tabix_accepts rejects (model copied from "
    "C11; compared with the real tabix on every index --no-sort case through agree_index); the harness reads "
    "(sequence name, start, end) off each data line by splitting at tabs",
]
ASSUMPTIONS = [
    "file == repeated options is demanded (holds) for a list of >= 1 entries none of which contains a line boundary "
    "character, written one entry per line as LF-terminated lines, with an unterminated last line (last entry not "
    "empty), with CRLF line ends, or CRLF with an unterminated last line: the entry point must receive exactly the "
    "collection that repeating the option hands it, and the command must write the same output. For the same list "
    "followed by ONE blank line (LF or CRLF) the entry point may additionally receive the empty entry - an empty name "
    "names no sample, haplotype or variant - so the collections are compared without empty entries, and the command "
    "must write the same output. An entry with leading/trailing blanks is a different name (no stripping is demanded or "
    "tolerated). Blank lines inside the list, \\v, U+2028 and lone \\r separators are checked against the model only "
    "(agree). Empty files: DESIGN.md section 10.",
    "unknown entries ('reported and ignored'): judged against the same command line without the unknown entries, when "
    "every restricted selection keeps >= 1 known entry: same exit status and same output (ignored); if the run exits 0 "
    "and the verbosity is INFO (default), NOTSET, WARNING or DEBUG, at least one message of level >= WARNING or library "
    "warning that the run without them does not give, and at least one of the unknown entries is a word of a message of "
    "level >= WARNING (reported: a report says what it is about), for samples and IDs of all three commands that take "
    "them; for --id/--ids-file of transform and simphenotype and the haplotype IDs of ld each unknown entry (at most "
    "five: the messages list 'the first few') must moreover be such a word, because those commands name them all.",
    "'a failing run exits non-zero': a run is taken to be failing when an output file the subcommand documents does not "
    "exist afterwards, or when the documented Python entry point, given the same parameters, raises (or returns without "
    "having written a documented output). Nothing is demanded of runs that merely log an ERROR (simphenotype "
    "--no-normalize without --heritability logs one and completes by design).",
    "runs in one process: 'the same output as its documented Python entry point given the same parameters' and "
    "'reported' are demanded of a command-line run whatever ran earlier in the same process - the other runs of the "
    "case in a drawn order (command line, respelled command line, the run without the unknown entries, the entry "
    "point with a logger of the command line's level or without one) and drawn earlier runs: the same subcommand on "
    "the same inputs with -v ERROR / DEBUG / NOTSET / CRITICAL / WARNING / default into another output directory, the "
    "entry point left to make its own (ERROR) logger, `haptools index` of another file. Only that is demanded: the "
    "run's own -v decides what must be printed (an earlier DEBUG run is not required to make a later default run "
    "print debug lines); nothing is demanded of the earlier runs themselves, nor of how OFTEN a line is printed "
    "(repeated calls on one stream duplicate lines on the code as it is: C19_log_written_count)",
    "--id next to --ids-file: the property does not say which wins; the model (file wins) is compared (agree), holds "
    "demands only exit-status / respelling / unknown-entry clauses for such runs",
    "cli configurations avoid inputs that trip defects owned by other properties (un-indexed VCF, effect IDs absent from "
    "the genotypes); a region that cuts a haplotype of ld, or a selection naming only unknown samples, makes both entry "
    "points raise the same exception, which the property allows (non-zero exit)",
]

CMDS = ["transform", "simphenotype", "ld", "index", "clump", "simgenotype", "karyogram"]
# file shapes for which holds demands "file == repeated options" (C19_Model.shape) ...
USER_STYLES = ["lf", "nofinal", "crlf", "crlf_nofinal", "lf_blank", "crlf_blank"]
# ... and layouts where only the model/implementation agreement is checked
ODD_STYLES = ["blank", "vt", "u2028", "empty"]
ENTRY_POOL = ["S0", "S1", "S2", "S3", "NA12878", "HG00096", "H0", "H1", "H2", "chr21.q.3365*1", "rs429358",
              "sample 1", "a\tb", "ü", "x.y", "unknownID",
              # blanks at either end belong to the name: "S1 " is not "S1"
              "S1 ", " H1", "NA12", "NA1"]


def main_cmd():
    from haptools.__main__ import main

    return main


def invoke_full(args):
    """-> (exit_code, exception class name or None, raised?, tail of the output, usage-error text shown?,
    what the command wrote to stderr)"""
    from click.testing import CliRunner

    res = CliRunner().invoke(main_cmd(), args)
    exc = res.exception
    raised = exc is not None and not (isinstance(exc, SystemExit) and exc.code in (0, None))
    usage = "Usage:" in res.output and "Error:" in res.output
    try:
        # click >= 8.2 always keeps stderr apart (and interleaves both streams in .output); older versions mix
        # stderr into .output unless the runner was made with mix_stderr=False, and then .stderr raises
        err = res.stderr
    except (ValueError, AttributeError):
        err = res.output
    return (int(res.exit_code), (type(exc).__name__ if exc is not None else None), bool(raised), res.output[-300:],
            bool(usage), err)


def invoke(args):
    """-> (exit_code, exception class name or None, raised?, tail of the output, usage-error text shown?)"""
    return invoke_full(args)[:5]


# ---------------------------------------------------------------------------
# relation resolve


def file_text(entries, style):
    if style == "lf":
        return "".join(e + "\n" for e in entries)
    if style == "crlf":
        return "".join(e + "\r\n" for e in entries)
    if style == "nofinal":
        return "\n".join(entries)
    if style == "crlf_nofinal":
        return "\r\n".join(entries)
    if style == "lf_blank":
        return "".join(e + "\n" for e in entries) + "\n"
    if style == "crlf_blank":
        return "".join(e + "\r\n" for e in entries) + "\r\n"
    if style == "blank":
        return "\n".join(entries[:1] + [""] + entries[1:]) + "\n"
    if style == "vt":
        return "\x0b".join(entries) + "\n"
    if style == "u2028":
        return " ".join(entries) + "\r"
    if style == "empty":
        return ""
    raise ValueError(style)


def selection_args(kind, form, entries, style, spell, d, tag):
    """argv fragment for samples (kind 's') or ids (kind 'i'); returns (args, opts, file text or None)"""
    short, long_, fshort, flong = (("-s", "--sample", "-S", "--samples-file") if kind == "s"
                                   else ("-i", "--id", "-I", "--ids-file"))
    args, opts, text = [], [], None
    if entries is None:
        return args, opts, text
    if form in ("opts", "both"):
        for j, e in enumerate(entries):
            args += [short if (spell >> j) & 1 else long_, e]
        opts = list(entries)
    if form in ("file", "both"):
        text = file_text(entries, style)
        path = os.path.join(d, f"{tag}_{kind}.txt")
        with open(path, "w", newline="", encoding="utf-8") as f:
            f.write(text)
        args += [fshort if (spell >> 7) & 1 else flong, path]
    return args, opts, text


class Resolve(Relation):
    name = "resolve"
    coq_module = "C19_Check"
    coq_check = "check_resolve"
    coq_case_type = "rcase"
    coq_model = "model_resolve"
    coq_imports = ["C19_Model"]
    budget = {"quick": 800, "thorough": 12000}
    max_cases_per_shard = 120
    anchors = [("haptools/__main__.py", "transform"), ("haptools/__main__.py", "simphenotype"),
               ("haptools/__main__.py", "ld")]

    def _sel(self, rng, allow_both):
        r = rng.random()
        if r < 0.25:
            return None, "opts", "lf"
        n = int(rng.choice([1, 2, 3, 4]))
        entries = [ENTRY_POOL[int(rng.integers(0, len(ENTRY_POOL)))] for _ in range(n)]
        if rng.random() < 0.05:
            entries[int(rng.integers(0, n))] = ""
        form = ["opts", "file", "both"][int(rng.choice(3, p=[0.4, 0.45, 0.15] if allow_both else [0.45, 0.5, 0.05]))]
        # the style is drawn for every selection: a selection made with repeated options is re-run as a
        # file of that style (and the other way round)
        r = rng.random()
        if r < 0.3:
            style = "lf"
        elif r < 0.8:
            style = USER_STYLES[1 + int(rng.integers(0, len(USER_STYLES) - 1))]
        else:
            style = ODD_STYLES[int(rng.integers(0, len(ODD_STYLES)))]
            if style == "empty":
                if form == "opts":
                    style = "lf"
                else:
                    entries = []
        return entries, form, style

    def generate(self, rng, n, tier):
        out = []
        for _ in range(n):
            s, sf, ss = self._sel(rng, True)
            i, if_, is_ = self._sel(rng, False)
            out.append({"cmd": int(rng.integers(0, 3)), "samples": s, "sform": sf, "sstyle": ss,
                        "ids": i, "iform": if_, "istyle": is_, "spell": int(rng.integers(0, 256))})
        return out

    def exhaustive(self, tier):
        out = []
        for cmd in range(3):
            for sf in ("opts", "file", "both"):
                for if_ in ("opts", "file", "both"):
                    for s in (None, ["S1"], ["S1", "S0", "S1"]):
                        for i in (None, ["H1"], ["H2", "unknownID", "H1"]):
                            out.append({"cmd": cmd, "samples": s, "sform": sf, "sstyle": "lf", "ids": i, "iform": if_,
                                        "istyle": "lf", "spell": 0})
            # every file shape x every list length 1..3 (incl. an empty last entry), both selections, both directions
            for st in USER_STYLES + ODD_STYLES[:3]:
                for form in ("opts", "file"):
                    for l in (["A"], ["AB", "C"], ["S1", "S0", "S1"], ["A", ""], ["NA12", "NA1"]):
                        out.append({"cmd": cmd, "samples": l, "sform": form, "sstyle": st, "ids": None, "iform": "opts",
                                    "istyle": "lf", "spell": 0})
                        out.append({"cmd": cmd, "samples": None, "sform": "opts", "sstyle": "lf", "ids": l, "iform": form,
                                    "istyle": st, "spell": 0})
        return out

    def _invoke(self, inp, d, tag, swap):
        import haptools.transform, haptools.sim_phenotype, haptools.ld  # noqa

        cmd = inp["cmd"]
        sform, iform = inp["sform"], inp["iform"]
        if swap:
            sform = {"opts": "file", "file": "opts"}[sform]
            iform = {"opts": "file", "file": "opts"}[iform]
        sa, sopts, stext = selection_args("s", sform, inp["samples"], inp["sstyle"], inp["spell"], d, tag)
        ia, iopts, itext = selection_args("i", iform, inp["ids"], inp["istyle"], inp["spell"] >> 3, d, tag)
        gt = os.path.join(d, "g.vcf")
        hp = os.path.join(d, "h.hap")
        for p in (gt, hp):
            open(p, "a").close()
        got = []
        mods = [(haptools.transform, "transform_haps", 3, 4), (haptools.sim_phenotype, "simulate_pt", 8, 9),
                (haptools.ld, "calc_ld", 4, 5)]
        mod, fn, si, ii = mods[cmd]
        saved = getattr(mod, fn)

        def rec(*a, **k):
            got.append((a[si], a[ii]))

        setattr(mod, fn, rec)
        try:
            args = [CMDS[cmd]] + sa + ia + (["TARGET"] if cmd == 2 else []) + [gt, hp]
            code, exc, raised, tail, usage = invoke(args)
        finally:
            setattr(mod, fn, saved)

        def dump(x, ordered):
            if x is None:
                return None
            if isinstance(x, (set, frozenset)):
                return {"t": "set", "v": sorted(x)}
            return {"t": type(x).__name__, "v": list(x)}

        g = None
        if got:
            g = [dump(got[0][0], False), dump(got[0][1], cmd == 2)]
        return {"sopts": sopts, "sfile": stext, "iopts": iopts, "ifile": itext, "exit": code, "exc": exc, "got": g,
                "usage": usage, "tail": tail if code else ""}

    def run_impl(self, inp):
        d = tempfile.mkdtemp(prefix="hv_c19_")
        try:
            a = self._invoke(inp, d, "a", False)
            b = None
            if inp["sform"] != "both" and inp["iform"] != "both":
                b = self._invoke(inp, d, "b", True)
            return {"a": a, "b": b}
        finally:
            shutil.rmtree(d, ignore_errors=True)

    def _inv(self, v):
        strs = lambda l: L.lst(l, L.chars)
        ostr = lambda t: "None" if t is None else f"(Some {L.chars(t)})"
        if v["got"] is None:
            got = "None"
        else:
            coll = lambda c: "None" if c is None else f"(Some {strs(c['v'])})"
            got = f"(Some ({coll(v['got'][0])}, {coll(v['got'][1])}))"
        kind = lambda c: 0 if c is None else {"set": 1, "tuple": 2}.get(c["t"], 3)
        kinds = "(0, 0)" if v["got"] is None else f"({kind(v['got'][0])}, {kind(v['got'][1])})"
        return (f"(mkinv {strs(v['sopts'])} {ostr(v['sfile'])} {strs(v['iopts'])} {ostr(v['ifile'])} "
                f"{L.z(v['exit'])} {got} {kinds} {L.b(v.get('usage', False))})")

    def encode(self, inp, obs):
        if "a" not in obs:
            return f"(mkr {inp['cmd']} (mkinv [] None [] None 97 None (0, 0) false) None)"
        b = "None" if obs["b"] is None else f"(Some {self._inv(obs['b'])})"
        return f"(mkr {inp['cmd']} {self._inv(obs['a'])} {b})"

    def nontrivial(self, inp, obs):
        for k, f in (("samples", "sform"), ("ids", "iform")):
            if inp[k] is not None and (len(inp[k]) >= 2 or inp[f] != "opts"):
                return True
        return False

    def classes(self, inp, obs):
        out = [CMDS[inp["cmd"]], f"samples:{inp['sform'] if inp['samples'] is not None else 'none'}",
               f"ids:{inp['iform'] if inp['ids'] is not None else 'none'}"]
        for k, st in (("samples", "sstyle"), ("ids", "istyle")):
            if inp[k] is not None:
                if inp[st] != "lf":
                    out.append(f"file-style:{inp[st]}")
                if len(set(inp[k])) < len(inp[k]):
                    out.append("duplicates")
                if "" in inp[k]:
                    out.append("empty-string-entry")
        if "a" in obs:
            out.append(f"exit={obs['a']['exit']}")
            if obs["a"]["exc"] not in (None, "SystemExit"):
                out.append(f"raised-{obs['a']['exc']}")
        return out

    def shrink(self, inp):
        for k, f, st in (("samples", "sform", "sstyle"), ("ids", "iform", "istyle")):
            if inp[k] is not None:
                yield dict(inp, **{k: None, f: "opts", st: "lf"})
                for j in range(len(inp[k])):
                    if len(inp[k]) > 1:
                        yield dict(inp, **{k: inp[k][:j] + inp[k][j + 1:]})
                if inp[st] != "lf" and inp[st] != "empty":
                    yield dict(inp, **{st: "lf"})
                if inp[k] and any(e != "H1" for e in inp[k]):
                    yield dict(inp, **{k: ["H1"] * len(inp[k])})
        if inp["spell"]:
            yield dict(inp, spell=0)
        if inp["cmd"]:
            yield dict(inp, cmd=0)

    def mutate(self, inp, rng):
        for f in ("sform", "iform"):
            for v in ("opts", "file", "both"):
                if inp[f] != v:
                    yield dict(inp, **{f: v})

    def signature(self, inp, obs):
        runs = [obs.get(k) for k in ("a", "b")] if isinstance(obs, dict) else []
        runs = [r for r in runs if r]
        excs = sorted(set(r["exc"] for r in runs if r.get("exc") not in (None, "SystemExit")))
        idf = any(r["ifile"] is not None for r in runs)
        sf = any(r["sfile"] is not None for r in runs)
        both = inp["sform"] == "both"
        return (f"resolve ids-file-used={idf} samples-file-used={sf} both-sample-forms={both} raised={excs} "
                f"exits={sorted(set(r['exit'] for r in runs))}")


# ---------------------------------------------------------------------------
# relation cli: generated inputs

SEED_BOUNDARY = [0, 1, 42, 2**32 - 1]
UNKNOWN_S = ["NOSUCHSAMPLE", "NOSUCHSAMPLE2"]
UNKNOWN_I = ["NOSUCHID", "NOSUCHID2"]
POPS = ["YRI", "CEU"]
# sample counts around the widths of fixed-size integer arrays and numpy's print summarisation threshold
WIDE_N = [127, 128, 255, 256, 1000, 1001]
# configurations meant to fail (the Python entry point raises / a documented output cannot be written)
FAIL_CLASSES = {
    0: ["missing-call", "outdir", "only-unknown-ids", "absent-variant", "ancestry-without-bp"],
    1: ["missing-call", "outdir", "only-unknown-ids", "repeat-line"],
    2: ["missing-call", "outdir", "absent-target"],
    3: ["unsorted-no-sort", "unsorted-no-sort", "unsorted-no-sort", "outdir"],
    4: ["missing-column", "missing-column", "outdir"],
    5: ["bad-chrom", "bad-model", "outdir"],
    6: ["absent-sample", "absent-sample", "outdir"],
}


def tbx_triples(lines):
    """what tabix sees (seq_col=1, start_col=2, end_col=3, meta char '#') of the data lines: [[seq, start, end]];
    None when a line has no such reading"""
    out = []
    for s in lines:
        if s.startswith("#"):
            continue
        f = s.split("\t")
        try:
            if len(f) < 4 or str(int(f[2])) != f[2] or str(int(f[3])) != f[3]:
                return None
            out.append([f[1], int(f[2]), int(f[3])])
        except ValueError:
            return None
    return out


def tabix_accepts(triples):
    """generator-side mirror of C19_Model.tabix_accepts (used only to aim the generator, never to judge)"""
    seen, cur = set(), None
    for q, s_, e in triples:
        if s_ - 1 > e:
            return False
        if cur is not None:
            if q == cur[0]:
                if cur[1] > s_:
                    return False
            else:
                if q in seen or q == cur[0]:
                    return False
                seen.add(cur[0])
        cur = (q, s_)
    return True


def doc_outputs(inp, outdir):
    """the output files the subcommand documents for this configuration"""
    cmd, p = inp["cmd"], inp["params"]
    base = os.path.join(outdir, p["outdir"]) if p.get("outdir") else outdir
    j = lambda *n: [os.path.join(base, x) for x in n]
    if cmd == 0:
        return j("out.pgen", "out.pvar", "out.psam") if p.get("pgen") else j("out.vcf")
    if cmd == 1:
        return j("out.pheno")
    if cmd == 2:
        return j("out.ld" if p["from_gts"] else "out.hap")
    if cmd == 3:
        if p["explicit"]:
            return j("out.hap.gz", "out.hap.gz.tbi")
        return [os.path.join(outdir, "in.hap.gz"), os.path.join(outdir, "in.hap.gz.tbi")]
    if cmd == 4:
        return j("out.clump")
    if cmd == 5:
        ext = p.get("out", "vcf")
        if p["only_bp"]:
            return j("sim.bp")
        return j("sim.bp", "sim." + ext) + (j("sim.pvar", "sim.psam") if ext == "pgen" else [])
    return j("k.png")


def missing_outputs(inp, outdir):
    return [os.path.relpath(x, outdir) for x in doc_outputs(inp, outdir) if not os.path.exists(x)]


def gen_dataset(rng, n=None):
    n = int(rng.integers(3, 7)) if n is None else n
    m = int(rng.integers(4, 8))
    samples = [f"S{i}" for i in range(n)]
    pos = sorted(int(x) for x in rng.choice(np.arange(100, 2000, 50), size=m, replace=False))
    variants = [[f"v{j}", p] for j, p in enumerate(pos)]
    gts = rng.integers(0, 2, size=(m, n, 2)).tolist()
    if rng.random() < 0.25:
        # a missing call: --discard-missing decides between an error and dropping the sample
        gts[int(rng.integers(0, m))][int(rng.integers(0, n))] = [-1, -1]
    nh = int(rng.integers(2, 5))
    haps = []
    for h in range(nh):
        k = int(rng.integers(1, 4))
        idx = sorted(int(x) for x in rng.choice(m, size=min(k, m), replace=False))
        hv = [[variants[j][0], variants[j][1], "AT"[int(rng.integers(0, 2))]] for j in idx]
        haps.append({"id": f"H{h}", "start": hv[0][1], "end": hv[-1][1] + 1, "beta": round(float(rng.normal()), 2),
                     "vars": hv, "anc": POPS[int(rng.integers(0, 2))]})
    hgts = rng.integers(0, 2, size=(nh, n, 2)).tolist()
    # local ancestry of every allele (only written when transform --ancestry is exercised)
    pop = rng.integers(0, 2, size=(m, n, 2)).tolist()
    return {"samples": samples, "variants": variants, "gts": gts, "haps": haps, "hgts": hgts, "pop": pop}


def write_vcf(path, samples, recs, pop=None):
    """recs: (chrom, pos, id, ref, alt, [[a,b] per sample]); path ends in .vcf.gz (bgzip + tabix) or .bcf (+ csi);
    pop[j][s] = two label indices -> FORMAT field POP"""
    import pysam

    plain = path[: -len(".vcf.gz")] + ".tmp.vcf" if path.endswith(".vcf.gz") else path[: -len(".bcf")] + ".tmp.vcf"
    chroms = []
    for r in recs:
        if r[0] not in chroms:
            chroms.append(r[0])
    with open(plain, "w") as f:
        f.write("##fileformat=VCFv4.2\n##FILTER=<ID=PASS,Description=\"All filters passed\">\n")
        for c in chroms:
            f.write(f"##contig=<ID={c}>\n")
        f.write("##FORMAT=<ID=GT,Number=1,Type=String,Description=\"Genotype\">\n")
        if pop is not None:
            f.write("##FORMAT=<ID=POP,Number=2,Type=String,Description=\"Origin Population of each respective allele in GT\">\n")
        f.write("#CHROM\tPOS\tID\tREF\tALT\tQUAL\tFILTER\tINFO\tFORMAT\t" + "\t".join(samples) + "\n")
        for j, (c, p, i, ref, alt, g) in enumerate(recs):
            cells = []
            for s_, (a, b) in enumerate(g):
                cell = f"{a}|{b}".replace("-1", ".")
                if pop is not None:
                    cell += f":{POPS[pop[j][s_][0]]},{POPS[pop[j][s_][1]]}"
                cells.append(cell)
            f.write(f"{c}\t{p}\t{i}\t{ref}\t{alt}\t.\t.\t.\tGT{':POP' if pop is not None else ''}\t" + "\t".join(cells) + "\n")
    if path.endswith(".bcf"):
        import pysam.bcftools as bcftools

        bcftools.view("-O", "b", "-o", path, plain, catch_stdout=False)
        bcftools.index(path)
    else:
        pysam.tabix_compress(plain, path, force=True)
        pysam.tabix_index(path, preset="vcf", force=True)
    os.unlink(plain)


def write_pgen(path, samples, recs):
    """the same records as a PGEN/PVAR/PSAM triple, written with pgenlib directly"""
    import pgenlib

    base = path[: -len(".pgen")]
    with open(base + ".psam", "w") as f:
        f.write("#IID\tSEX\n" + "".join(f"{s}\tNA\n" for s in samples))
    with open(base + ".pvar", "w") as f:
        f.write("#CHROM\tPOS\tID\tREF\tALT\n" + "".join(f"{c}\t{p}\t{i}\t{ref}\t{alt}\n" for c, p, i, ref, alt, _ in recs))
    with pgenlib.PgenWriter(filename=path.encode(), sample_ct=len(samples), variant_ct=len(recs), nonref_flags=False,
                            allele_ct_limit=2, hardcall_phase_present=True) as w:
        for rec in recs:
            row = np.array([(-9 if x < 0 else x) for ab in rec[5] for x in ab], dtype=np.int32)
            w.append_alleles(row, all_phased=True)


def write_gts(base, fmt, samples, recs, pop=None):
    path = base + {"vcf": ".vcf.gz", "bcf": ".bcf", "pgen": ".pgen"}[fmt]
    if fmt == "pgen":
        write_pgen(path, samples, recs)
    else:
        write_vcf(path, samples, recs, pop)
    return path


def write_dataset(ds, d, fmt="vcf", ancestry=False, effects="hap"):
    gt = write_gts(os.path.join(d, "gts"), fmt, ds["samples"],
                   [("1", p, i, "A", "T", ds["gts"][j]) for j, (i, p) in enumerate(ds["variants"])],
                   ds.get("pop") if ancestry else None)
    # records must be position sorted for tabix
    order = sorted(range(len(ds["haps"])), key=lambda j: ds["haps"][j]["start"])
    hg = write_gts(os.path.join(d, "hapgts"), fmt, ds["samples"],
                   [("1", ds["haps"][j]["start"], ds["haps"][j]["id"], "A", "T", ds["hgts"][j]) for j in order])
    if effects == "snplist":
        hp = os.path.join(d, "effects.snplist")
        with open(hp, "w") as f:
            for h in ds["haps"]:
                f.write(f"{h['id']}\t{h['beta']:.2f}\n")
        return gt, hg, hp
    hp = os.path.join(d, "haps.hap")
    with open(hp, "w") as f:
        if ancestry:
            f.write("#\torderH\tancestry\tbeta\n#\tversion\t0.2.0\n#H\tancestry\ts\tLocal ancestry\n"
                    "#H\tbeta\t.2f\tEffect size in linear model\n")
        else:
            f.write("#\torderH\tbeta\n#\tversion\t0.2.0\n#H\tbeta\t.2f\tEffect size in linear model\n")
        for h in ds["haps"]:
            anc = f"\t{h.get('anc', 'YRI')}" if ancestry else ""
            f.write(f"H\t1\t{h['start']}\t{h['end']}\t{h['id']}{anc}\t{h['beta']:.2f}\n")
        for h in ds["haps"]:
            for v in h["vars"]:
                f.write(f"V\t{h['id']}\t{v[1]}\t{v[1] + 1}\t{v[0]}\t{v[2]}\n")
    return gt, hg, hp


def intern_outputs(outdir, I):
    """every file under outdir as interned lines (text, gzip text) or one hash token (binary)"""
    toks = []
    for fn in sorted(os.listdir(outdir)):
        p = os.path.join(outdir, fn)
        raw = open(p, "rb").read()
        toks.append(I(("file", fn)))
        if raw[:2] == b"\x1f\x8b" and not fn.endswith(".tbi"):
            try:
                raw = gzip.decompress(raw)
            except Exception:  # noqa
                pass
        try:
            txt = raw.decode("utf-8")
            if "\x00" in txt:
                raise UnicodeDecodeError("utf-8", b"", 0, 1, "binary")
            toks += [I(("line", s)) for s in txt.split("\n")]
        except UnicodeDecodeError:
            toks.append(I(("blob", hashlib.sha256(raw).hexdigest())))
    return toks


def out_members(cmd, outdir, params):
    """(samples, ids) visible in the output of transform / simphenotype / ld; None where not applicable"""
    try:
        if cmd == 0 and params.get("pgen"):
            psam = open(os.path.join(outdir, "out.psam")).read().split("\n")
            pvar = open(os.path.join(outdir, "out.pvar")).read().split("\n")
            return ([s.split("\t")[0] for s in psam[1:] if s],
                    [s.split("\t")[2] for s in pvar if s and not s.startswith("#")])
        if cmd == 0:
            txt = open(os.path.join(outdir, "out.vcf")).read().split("\n")
            hdr = [s for s in txt if s.startswith("#CHROM")][0].split("\t")
            return hdr[9:], [s.split("\t")[2] for s in txt if s and not s.startswith("#")]
        if cmd == 1:
            txt = open(os.path.join(outdir, "out.pheno")).read().split("\n")
            # phenotype names are derived from the IDs plus suffixes: only the samples are read off
            return [s.split("\t")[0] for s in txt[1:] if s], None
        if cmd == 2:
            if params.get("from_gts"):
                txt = open(os.path.join(outdir, "out.ld")).read().split("\n")
                return None, [s.split("\t")[2] for s in txt[1:] if s]
            txt = open(os.path.join(outdir, "out.hap")).read().split("\n")
            return None, [s.split("\t")[4] for s in txt if s.startswith("H\t")]
    except Exception:  # noqa
        return None, None
    return None, None


WORD_STRIP = "[](){}'\"`,:;."


def words_of(msg):
    """the words of a log message: split at whitespace, brackets / quotes / punctuation stripped at both ends"""
    out = []
    for w in msg.split():
        w = w.strip(WORD_STRIP)
        if w:
            out.append(w)
    return out


LEVELS = {"NOTSET": 0, "DEBUG": 10, "INFO": 20, "WARNING": 30, "ERROR": 40, "CRITICAL": 50}
# haptools/logging.py: "[%(levelname)8s" (+ "|%(asctime)s" at DEBUG) + "] %(message)s (%(filename)s:%(lineno)s)"
LOG_HEAD = re.compile(r"^\[\s*(DEBUG|INFO|WARNING|ERROR|CRITICAL)(\|[^\]]*)?\] ")
LOG_TAIL = re.compile(r" \([^\s()]+:\d+\)$")
# warnings.showwarning: "<file>:<line>: <Category>: <message>" and the source line, indented, below it
WARN_LINE = re.compile(r"^.*?:\d+: (\w*(?:Warning|Error)\w*): (.*)$")
# verbosity of an earlier run ("same": that of the run under test; None: the option is not given)
HISTORY_V = ["ERROR", "DEBUG", "NOTSET", "CRITICAL", "WARNING", None, "same", "ERROR"]
JUDGED = ["cli", "alt", "ref", "py"]


def norm_text(t):
    return "\n".join(x.rstrip() for x in t.split("\n")).strip("\n")


def parse_printed(text):
    """what a command printed, parsed back: -> (log lines [[level, message]], library warnings [[25, text]]).
    A log line starts with the level in brackets and ends with " (file:line)"; a message may span lines."""
    logs, warns = [], []
    lines = text.replace("\r\n", "\n").split("\n")
    k = 0
    while k < len(lines):
        m = LOG_HEAD.match(lines[k])
        if m:
            body = [lines[k][m.end():]]
            end = k
            if not LOG_TAIL.search(lines[k]):
                # a message of several lines: up to the line that carries the (file:line) suffix
                for j in range(k + 1, min(len(lines), k + 400)):
                    if LOG_HEAD.match(lines[j]):
                        break
                    if LOG_TAIL.search(lines[j]):
                        body += lines[k + 1:j + 1]
                        end = j
                        break
            body[-1] = LOG_TAIL.sub("", body[-1])
            logs.append([LEVELS[m.group(1)], norm_text("\n".join(body))])
            k = end + 1
            continue
        w = WARN_LINE.match(lines[k])
        if w:
            warns.append([25, f"{w.group(1)}: {w.group(2).rstrip()}"])
        k += 1
    return logs, warns


def reset_logging():
    """every case starts like a fresh process as far as the logging module goes: the haptools loggers have no
    handlers and no level (the workers of the harness run many cases)"""
    import logging

    for name, lg in list(logging.root.manager.loggerDict.items()):
        if (name == "haptools" or name.startswith("haptools.")) and isinstance(lg, logging.Logger):
            for h in list(lg.handlers):
                lg.removeHandler(h)
            lg.setLevel(logging.NOTSET)
            lg.disabled = False
            lg.propagate = True
            del lg.filters[:]
    logging.getLogger().setLevel(logging.WARNING)


class Seen:
    """Around one run.  Library warnings are not deduplicated (an 'always' filter: the harness's process has run
    other cases) and go where Python sends them (sys.stderr, i.e. into what CliRunner captures); with record=True
    they are kept aside instead (Python entry point).  The log records that come into being on the subcommand's
    logger are noted through the record factory - no handler or filter is attached to any logger, so what the
    command prints, and through which handlers, is untouched (a handler on the root logger would also switch off
    logging.lastResort)."""

    def __init__(self, cmd, record=False):
        self.name = "haptools." + cmd
        self.record = record
        self.recs = []

    def __enter__(self):
        import logging
        import warnings

        self.old_factory = logging.getLogRecordFactory()
        outer = self

        def factory(*a, **k):
            rec = outer.old_factory(*a, **k)
            try:
                if rec.name == outer.name:
                    outer.recs.append([int(rec.levelno), norm_text(rec.getMessage())])
            except Exception:  # noqa
                pass
            return rec

        logging.setLogRecordFactory(factory)
        # a handler left by an earlier run may point at a stream that no longer exists: as in production,
        # the logging module is not to print tracebacks about that into the output under test
        self.old_raise = logging.raiseExceptions
        logging.raiseExceptions = False
        self.cw = warnings.catch_warnings(record=self.record)
        self.wlist = self.cw.__enter__()
        warnings.simplefilter("always")
        return self

    def __exit__(self, *exc):
        import logging

        self.cw.__exit__(*exc)
        logging.setLogRecordFactory(self.old_factory)
        logging.raiseExceptions = self.old_raise
        return False


class Cli(Relation):
    name = "cli"
    coq_module = "C19_Check"
    coq_check = "check_cli"
    coq_case_type = "ccase"
    coq_model = "model_cli_shown"
    coq_imports = ["C19_Model"]
    budget = {"quick": 400, "thorough": 4000}
    max_cases_per_shard = 50
    timeout_per_case = 300
    anchors = [("haptools/__main__.py", n) for n in
               ("transform", "simphenotype", "ld", "index", "clump", "simgenotype", "karyogram")] + [
        # modelled in C19_Model.v (index_tail; get_logger)
        ("haptools/index.py", "index_haps"), ("haptools/logging.py", "getLogger")]

    # ---- generation
    def _selection(self, rng, pool, unknown):
        """(entries or None, form, style)"""
        r = rng.random()
        if r < 0.3:
            return None, "opts", "lf"
        k = int(rng.integers(1, min(len(pool), 3) + 1))
        entries = [pool[int(x)] for x in rng.choice(len(pool), size=k, replace=False)]
        r = rng.random()
        if r < 0.3:
            entries.insert(int(rng.integers(0, len(entries) + 1)), unknown[0])
        if r < 0.08:
            entries.append(unknown[1])
        if rng.random() < 0.2:
            entries.append(entries[0])
        form = ["opts", "file"][int(rng.integers(0, 2))]
        # every selection has a file style: one made with repeated options is re-run from a file of that style
        style = "lf" if rng.random() < 0.35 else USER_STYLES[int(rng.integers(1, len(USER_STYLES)))]
        if form == "file" and rng.random() < 0.1:
            style, entries = "empty", []
        return entries, form, style

    def _seed(self, rng):
        if rng.random() < 0.5:
            return SEED_BOUNDARY[int(rng.integers(0, len(SEED_BOUNDARY)))]
        return int(rng.integers(1, 2**31 - 1))

    def _apply_fail(self, rng, inp, cls):
        """turn a configuration into one of a class meant to fail"""
        from . import c11

        cmd, p = inp["cmd"], inp["params"]
        inp["fail"] = cls
        if cls == "outdir":
            # the directory the output is to be written into does not exist
            p["outdir"] = "nodir"
            if cmd == 3:
                p["explicit"] = True
        elif cls == "missing-call":
            ds = inp["data"]
            key = "hgts" if cmd == 1 else "gts"
            j = int(rng.integers(0, len(ds[key])))
            ds[key][j][int(rng.integers(0, len(ds["samples"])))] = [-1, -1]
            p["discard_missing"] = False
        elif cls == "only-unknown-ids":
            inp["ids"] = [UNKNOWN_I[0]] + ([UNKNOWN_I[1]] if rng.random() < 0.3 else [])
            inp["iform"] = ["opts", "file"][int(rng.integers(0, 2))]
            inp["istyle"] = "lf"
            inp.pop("ids_extra", None)
        elif cls == "absent-variant":
            # an allele of a haplotype belongs to a variant the genotypes do not have
            h = inp["data"]["haps"][int(rng.integers(0, len(inp["data"]["haps"])))]
            h["vars"].append(["vABSENT", 2100, "A"])
            h["end"] = 2101
        elif cls == "repeat-line":
            # a repeat among the causal effects without --repeats
            p["repeat_line"] = True
            p["effects"] = "hap"
            if inp.get("ids"):
                inp["ids"] = inp["ids"] + ["STR1"]
        elif cls == "ancestry-without-bp":
            # --ancestry with genotypes that carry no ancestry and have no .bp file next to them
            p["fmt"] = "pgen"
            p["ancestry"] = True
            if p.get("chunk") is None:
                p["chunk"] = 2
        elif cls == "absent-target":
            p["target"] = "NOSUCHTARGET"
        elif cls == "unsorted-no-sort":
            p["sort"] = False
            for _ in range(8):
                t = tbx_triples(inp["lines"])
                if t is not None and not tabix_accepts(t):
                    break
                inp["lines"] = c11.gen_file(rng, "wf", "shuffled")
        elif cls == "missing-column":
            p["missing_col"] = ["p", "id", "chrom", "pos"][int(rng.integers(0, 4))]
        elif cls == "bad-chrom":
            if inp["cfg"]["region"]:
                inp["fail"] = "outdir"
                p["outdir"] = "nodir"
            else:
                p["bad_chrom"] = ["25", "0", "Y", "chr1"][int(rng.integers(0, 4))]
        elif cls == "bad-model":
            # admixture fractions of one generation do not sum to one
            ln = inp["cfg"]["model"][int(rng.integers(0, len(inp["cfg"]["model"])))]
            ln[2] = round(ln[2] + 0.3, 4)
        elif cls == "absent-sample":
            p["sample"] = "Absent_9"
        else:
            raise ValueError(cls)
        return inp

    def _case(self, rng, cmd, fail=None, wide=None):
        from . import c01, c11, c17

        inp = {"cmd": cmd, "spell": int(rng.integers(0, 1 << 12)), "seed": self._seed(rng)}
        verbosity = [None, "INFO", "WARNING", "DEBUG", "ERROR", "CRITICAL", "NOTSET"][
            int(rng.choice(7, p=[.33, .1, .25, .1, .09, .09, .04]))]
        if cmd in (0, 1, 2):
            ds = gen_dataset(rng, wide)
            inp["data"] = ds
            if wide:
                inp["wide"] = wide
            m = len(ds["variants"])
            s, sf, ss = self._selection(rng, ds["samples"], UNKNOWN_S)
            if wide and rng.random() < 0.6:
                s, sf, ss = None, "opts", "lf"
            hapids = [h["id"] for h in ds["haps"]]
            p = {"fmt": ["vcf", "bcf", "pgen"][int(rng.choice(3, p=[0.5, 0.15, 0.35]))]}
            if cmd == 2:
                p["from_gts"] = bool(rng.random() < 0.35)
                p["target"] = hapids[int(rng.integers(0, len(hapids)))]
                if rng.random() < 0.3:
                    p["target"] = ds["variants"][int(rng.integers(0, m))][0]
                pool = [v[0] for v in ds["variants"]] if p["from_gts"] else [h for h in hapids if h != p["target"]]
                i, if_, is_ = self._selection(rng, pool or hapids, UNKNOWN_I)
            else:
                i, if_, is_ = self._selection(rng, hapids, UNKNOWN_I)
            if cmd == 1:
                p["replications"] = int(rng.choice([1, 1, 2, 3]))
                p["heritability"] = [None, 0.3, 0.0, 1.0, 0.5][int(rng.choice(5, p=[.4, .3, .1, .1, .1]))]
                p["prevalence"] = [None, 0.4, 0.0][int(rng.choice(3, p=[.6, .25, .15]))]
                p["normalize"] = bool(rng.random() < 0.8)
                p["environment"] = ([0.5, 0.0][int(rng.integers(0, 2))]
                                    if (p["heritability"] is None and rng.random() < 0.3) else None)
                p["effects"] = "snplist" if rng.random() < 0.25 else "hap"
            if cmd == 0:
                p["discard_missing"] = bool(rng.random() < 0.3)
                p["maf"] = [None, 0.2, 0.0, 0.5][int(rng.choice(4, p=[.55, .2, .15, .1]))]
                p["pgen"] = bool(rng.random() < 0.25)
                p["ancestry"] = bool(p["fmt"] != "pgen" and rng.random() < 0.25)
            if cmd == 2:
                p["discard_missing"] = bool(rng.random() < 0.3)
            # chunk sizes matter for PGEN: 1, 2, exactly all variants, more than there are
            p["chunk"] = ([None, 1, 2, m, m + 3][int(rng.integers(0, 5))] if (p["fmt"] == "pgen" or p.get("pgen"))
                          else [None, None, 2][int(rng.integers(0, 3))])
            if rng.random() < 0.25:
                lo, hi = ds["variants"][0][1], ds["variants"][-1][1]
                mid = ds["variants"][m // 2][1]
                p["region"] = ["1", f"1:{lo}-{hi + 10}", f"1:{lo}-{mid}", f"1:{mid}-{hi}"][int(rng.integers(0, 4))]
            both = bool(s is not None and s and rng.random() < 0.1)
            inp.update({"samples": s, "sform": "both" if both else sf, "sstyle": ss, "ids": i, "iform": if_,
                        "istyle": is_, "params": p})
            if i and if_ == "file" and rng.random() < 0.2:
                # --id next to --ids-file
                k = int(rng.integers(1, 3))
                pool_ = (pool or hapids) if cmd == 2 else hapids
                inp["iform"] = "both"
                inp["ids_extra"] = [pool_[int(x)] for x in rng.integers(0, len(pool_), size=k)]
        elif cmd == 3:
            sort = bool(rng.random() < 0.6)
            inp["lines"] = c11.gen_file(rng, "wf", "shuffled" if sort else ("blocks" if rng.random() < 0.8 else "shuffled"))
            inp["params"] = {"sort": sort, "explicit": bool(rng.random() < 0.5), "gz": bool(rng.random() < 0.2)}
        elif cmd == 4:
            if rng.random() < 0.5:
                # SNPs, STRs or both, VCF or PGEN, every field name / threshold explicit (C17's generator)
                inp["clump"] = c17.gen_clump(rng)
                inp["params"] = {}
            else:
                ds = gen_dataset(rng)
                inp["data"] = ds
                inp["pvals"] = [float(x) for x in rng.choice([1e-8, 1e-5, 5e-5, 0.001, 0.005, 0.02, 0.5],
                                                             size=len(ds["variants"]))]
                inp["params"] = {"p1": [None, 0.001, 1.0][int(rng.integers(0, 3))],
                                 "p2": [None, 0.0, 0.006, 1.0][int(rng.integers(0, 4))],
                                 "kb": [None, 0.5, 0.0][int(rng.integers(0, 3))],
                                 "r2": [None, 0.1, 0.0, 1.0][int(rng.integers(0, 4))],
                                 "ld": ["Pearson", "Exact", None][int(rng.integers(0, 3))],
                                 "fmt": ["vcf", "pgen"][int(rng.choice(2, p=[0.7, 0.3]))]}
        elif cmd == 5:
            cfg = c01.make_config(rng)
            cfg["popsize"] = int(rng.choice([10, 20, 30]))
            if wide:
                # the number of simulated samples (columns of the output, rows of the PSAM, haplotype blocks of the .bp)
                cfg["nsamples"] = wide
                inp["wide"] = wide
            inp["cfg"] = cfg
            nref = 4
            refs = []
            for c in cfg["chroms"]:
                bps = [r[2] for r in cfg["maps"][c]]
                lo, hi = min(bps), max(bps)
                pos = set(int(x) for x in rng.integers(max(1, lo - 5), hi + 50, size=5))
                if cfg["region"] and rng.random() < 0.9:
                    # keep the region non-empty (an empty region makes output_vcf raise IndexError)
                    r_ = cfg["region"]
                    pos.update(int(x) for x in rng.integers(r_["start"], r_["end"] + 1, size=2))
                pos = sorted(pos)
                for p_ in pos:
                    refs.append([c, p_, rng.integers(0, 2, size=(nref * len(cfg["pops"]), 2)).tolist()])
            inp["ref"] = refs
            inp["params"] = {"only_bp": bool(rng.random() < 0.35), "pop_field": bool(rng.random() < 0.3),
                             "sample_field": bool(rng.random() < 0.3),
                             "chunk": [None, 1, 3, 1000][int(rng.integers(0, 4))],
                             "no_replacement": bool(rng.random() < 0.15),
                             "out": ["vcf", "vcf", "vcf.gz", "bcf", "pgen"][int(rng.integers(0, 5))],
                             "ref_fmt": ["vcf", "vcf", "pgen"][int(rng.integers(0, 3))]}
        else:
            nchrom = int(rng.integers(1, 4))
            haps = []
            for h in range(2):
                blocks = []
                for c in range(1, nchrom + 1):
                    nb = int(rng.integers(1, 4))
                    ends = sorted(int(x) for x in rng.choice(np.arange(1000, 90000, 1000), size=nb, replace=False))
                    for e in ends:
                        blocks.append([["YRI", "CEU"][int(rng.integers(0, 2))], c, e, round(e / 1000.0, 3)])
                haps.append(blocks)
            inp["bp"] = haps
            inp["params"] = {"title": [None, "My_title"][int(rng.integers(0, 2))],
                             "colors": [None, "YRI:blue,CEU:red", "YRI:#1f77b4,CEU:green"][int(rng.choice(3, p=[0.2, 0.4, 0.4]))],
                             "sample": "Sample_1" if rng.random() < 0.9 else "Absent_9",
                             "centromeres": bool(rng.random() < 0.3)}
        inp["params"]["verbosity"] = verbosity
        if fail is None and rng.random() < 0.15:
            fail = FAIL_CLASSES[cmd][int(rng.integers(0, len(FAIL_CLASSES[cmd])))]
        if fail:
            self._apply_fail(rng, inp, fail)
        self._sequence(rng, inp)
        return inp

    def _sequence(self, rng, inp):
        """the order in which the runs of the case are made (one process) and what else ran before them"""
        seq = list(JUDGED)
        if rng.random() < 0.65:
            seq = [seq[int(j)] for j in rng.permutation(4)]
        if rng.random() < 0.45:
            for _ in range(int(rng.choice([1, 1, 2]))):
                r = rng.random()
                if r < 0.5:
                    # the same subcommand on the same inputs, another verbosity, another output path
                    item = {"h": "cli", "v": HISTORY_V[int(rng.integers(0, len(HISTORY_V)))]}
                elif r < 0.85:
                    # through the other door: the Python entry point, left to make its own logger
                    item = {"h": "api"}
                else:
                    # another subcommand (were two of them to share a logger ...)
                    item = {"h": "index", "v": HISTORY_V[int(rng.integers(0, len(HISTORY_V)))]}
                # mostly before the command-line run under test
                at = seq.index("cli") if rng.random() < 0.6 else int(rng.integers(0, len(seq) + 1))
                seq.insert(at, item)
        inp["seq"] = seq
        # the judged call of the entry point: with a logger of the command line's level, or without one
        inp["pylog"] = "none" if rng.random() < 0.3 else "given"

    def generate(self, rng, n, tier):
        out = [self._case(rng, [0, 1, 2, 3, 4, 5, 6, 0, 1, 2][k % 10]) for k in range(n)]
        # every class of failing configuration of every subcommand, at least once per run
        special = [self._case(rng, cmd, fail=cls) for cmd in range(7) for cls in sorted(set(FAIL_CLASSES[cmd]))]
        # sample counts straddling 127|128, 255|256, 1000|1001 (transform / simphenotype / ld; simgenotype up to 256)
        for k in range(3 if tier == "quick" else 32):
            cmd = [0, 5, 1, 2][(k + int(rng.integers(0, 4))) % 4] if tier == "quick" else [0, 5, 1, 2][k % 4]
            pool = WIDE_N[:4] if cmd == 5 else WIDE_N
            special.append(self._case(rng, cmd, fail="", wide=pool[int(rng.integers(0, len(pool)))]))
        special = special[:n]
        for j, c in enumerate(special):
            out[(j * n) // len(special)] = c
        return out

    def exhaustive(self, tier):
        """every boundary seed x the two seeded commands, and every file shape x command x selection"""
        rng = np.random.default_rng(19)
        out = []
        for cmd in (1, 5):
            for seed in SEED_BOUNDARY:
                c = self._case(rng, cmd)
                c["seed"] = seed
                out.append(c)
        for cmd in (0, 1, 2):
            for st in USER_STYLES:
                for which in ("samples", "ids"):
                    for _ in range(40):
                        c = self._case(rng, cmd)
                        if c.get(which) and c["sform"] != "both" and c["iform"] != "both":
                            break
                    else:
                        continue
                    c["sstyle" if which == "samples" else "istyle"] = st
                    out.append(c)
        # index: every order of a small file (two records of one contig, one of another, one variant line) x sorting
        # x output location; every class of failing configuration of every subcommand, three times
        import itertools

        base = ["H\t1\t10\t15\tA", "H\t1\t20\t30\tB", "H\t2\t5\t6\tC", "V\tA\t12\t13\trs1\tT"]
        for perm in itertools.permutations(base):
            for sort in (False, True):
                out.append({"cmd": 3, "spell": 0, "seed": 1, "lines": ["#\tversion\t0.2.0"] + list(perm),
                            "params": {"sort": sort, "explicit": bool(len(out) % 2), "verbosity": None}})
        for cmd in range(7):
            for cls in sorted(set(FAIL_CLASSES[cmd])):
                for _ in range(3):
                    out.append(self._case(rng, cmd, fail=cls))
        return out

    # ---- building the two ways of running a configuration
    def _files(self, inp, d):
        cmd = inp["cmd"]
        p = inp["params"]
        f = {}
        if cmd in (0, 1, 2) or (cmd == 4 and "data" in inp):
            f["gt"], f["hg"], f["hp"] = write_dataset(inp["data"], d, p.get("fmt", "vcf"), bool(p.get("ancestry")),
                                                      p.get("effects", "hap"))
        if cmd == 1 and p.get("repeat_line") and f["hp"].endswith(".hap"):
            txt = open(f["hp"]).read().split("\n")
            h0 = inp["data"]["haps"][0]
            txt.insert(1, "#R\tbeta\t.2f\tEffect size in linear model")
            txt.insert(len(txt) - 1, f"R\t1\t{h0['start']}\t{h0['end']}\tSTR1\t0.25")
            with open(f["hp"], "w") as fh:
                fh.write("\n".join(txt))
        if cmd == 3:
            # plain or gzip-compressed input (the default output location of the latter is the input itself)
            f["hap"] = os.path.join(d, "in.hap.gz" if p.get("gz") else "in.hap")
            with (gzip.open(f["hap"], "wt") if p.get("gz") else open(f["hap"], "w")) as fh:
                fh.write("".join(s + "\n" for s in inp["lines"]))
        if cmd == 4 and "data" in inp:
            path = os.path.join(d, "stats.linear")
            with open(path, "w") as fh:
                fh.write("#CHROM\tPOS\tID\tREF\tALT\tA1\tTEST\tOBS_CT\tBETA\tSE\tT_STAT\tP\tERRCODE\n")
                for (i, pos), pv in zip(inp["data"]["variants"], inp["pvals"]):
                    fh.write(f"1\t{pos}\t{i}\tA\tT\tT\tADD\t100\t0.5\t0.1\t5.0\t{pv!r}\t.\n")
            f["stats"] = path
        if cmd == 4 and "clump" in inp:
            from . import c17

            f["clump"] = c17._write_inputs(inp["clump"], d)
        if cmd == 5:
            from . import c01

            md = os.path.join(d, "maps")
            os.makedirs(md)
            cfg = inp["cfg"]
            f["model"] = c01.write_config(cfg, md)
            f["mapdir"] = md
            samples = [f"R{i}" for i in range(4 * len(cfg["pops"]))]
            with open(os.path.join(d, "info.tab"), "w") as fh:
                for i, s in enumerate(samples):
                    fh.write(f"{s}\t{cfg['pops'][i % len(cfg['pops'])]}\n")
            f["info"] = os.path.join(d, "info.tab")
            f["ref"] = write_gts(os.path.join(d, "ref"), p.get("ref_fmt", "vcf"), samples,
                                 [(c, p_, f"{c}:{p_}", "A", "T", g) for c, p_, g in inp["ref"]])
        if cmd == 6:
            path = os.path.join(d, "in.bp")
            with open(path, "w") as fh:
                for h, blocks in enumerate(inp["bp"]):
                    fh.write(f"Sample_1_{h + 1}\n")
                    for b in blocks:
                        fh.write(f"{b[0]}\t{b[1]}\t{b[2]}\t{b[3]}\n")
            f["bp"] = path
            if p.get("centromeres"):
                cm = os.path.join(d, "centromeres.txt")
                nchrom = max(b[1] for blocks in inp["bp"] for b in blocks)
                with open(cm, "w") as fh:
                    for c in range(1, nchrom + 1):
                        fh.write(f"{c}\t0.0\t{40.0 + c}\t{95.0 + c}\n")
                f["centromeres"] = cm
        return f

    @staticmethod
    def _without_unknown(inp):
        """the same configuration without the entries that name nothing; None when there is nothing to compare with
        (no unknown entry, or no known entry left in a selection)"""
        if inp["cmd"] not in (0, 1, 2) or inp.get("sform") == "both":
            return None
        out = dict(inp)
        changed = False
        for k, unk in (("samples", UNKNOWN_S), ("ids", UNKNOWN_I), ("ids_extra", UNKNOWN_I)):
            if inp.get(k):
                kept = [e for e in inp[k] if e not in unk]
                if len(kept) < len(inp[k]):
                    if not kept:
                        return None
                    out[k] = kept
                    changed = True
        return out if changed else None

    @staticmethod
    def _clump_fields(inp):
        """the column names handed to clump; a configuration of class missing-column names one that is absent"""
        fld = dict(inp["clump"]["fields"]) if "clump" in inp else {"id": "ID", "p": "P", "chrom": "CHROM", "pos": "POS"}
        if inp["params"].get("missing_col"):
            fld[inp["params"]["missing_col"]] = "NOSUCHCOLUMN"
        return fld

    @staticmethod
    def _chroms(inp):
        cfg = inp["cfg"]
        return list(cfg["chroms"]) + ([inp["params"]["bad_chrom"]] if inp["params"].get("bad_chrom") else [])

    def _argv(self, inp, f, d, outdir, tag, swap):
        cmd, p, sp = inp["cmd"], inp["params"], inp["spell"] ^ (0xFFF if swap else 0)
        bit = lambda j: (sp >> j) & 1
        a = [CMDS[cmd]]
        real_outdir = outdir
        if p.get("outdir"):
            outdir = os.path.join(outdir, p["outdir"])
        verb = [] if p.get("verbosity") is None else ["-v" if bit(11) else "--verbosity", p["verbosity"]]
        if cmd in (0, 1, 2):
            sform, iform = inp["sform"], inp["iform"]
            if swap:
                sform = {"opts": "file", "file": "opts", "both": "both"}[sform]
                iform = {"opts": "file", "file": "opts", "both": "both"}[iform]
            # an empty file has no spelling as repeated options: it stays a file
            if swap and inp["sstyle"] == "empty":
                sform = "file"
            if swap and inp["istyle"] == "empty":
                iform = "file"
            a += selection_args("s", sform, inp["samples"], inp["sstyle"], sp, d, tag)[0]
            if iform == "both":
                a += selection_args("i", "opts", inp["ids_extra"], "lf", sp >> 3, d, tag)[0]
                a += selection_args("i", "file", inp["ids"], inp["istyle"], sp >> 3, d, tag)[0]
            else:
                a += selection_args("i", iform, inp["ids"], inp["istyle"], sp >> 3, d, tag)[0]
            if p.get("region"):
                a += ["--region", p["region"]]
            if p.get("chunk") is not None:
                a += ["-c" if bit(10) else "--chunk-size", str(p["chunk"])]
        if cmd == 0:
            if p["discard_missing"]:
                a.append("--discard-missing")
            if p.get("ancestry"):
                a.append("--ancestry")
            if p["maf"] is not None:
                a += ["--maf", str(p["maf"])]
            a += ["-o" if bit(8) else "--output", os.path.join(outdir, "out.pgen" if p.get("pgen") else "out.vcf")]
            a += verb + [f["gt"], f["hp"]]
        elif cmd == 1:
            a += ["-r" if bit(9) else "--replications", str(p["replications"])]
            if p["heritability"] is not None:
                a += ["-h" if bit(10) else "--heritability", str(p["heritability"])]
            if p["prevalence"] is not None:
                a += ["-p" if bit(9) else "--prevalence", str(p["prevalence"])]
            if p.get("environment") is not None:
                a += ["--environment", str(p["environment"])]
            if not p["normalize"]:
                a.append("--no-normalize")
            a += ["--seed", str(inp["seed"]), "-o" if bit(8) else "--output", os.path.join(outdir, "out.pheno")]
            a += verb + [f["hg"], f["hp"]]
        elif cmd == 2:
            if p["from_gts"]:
                a.append("--from-gts")
            if p.get("discard_missing"):
                a.append("--discard-missing")
            out = os.path.join(outdir, "out.ld" if p["from_gts"] else "out.hap")
            a += ["-o" if bit(8) else "--output", out] + verb + [p["target"], f["gt"], f["hp"]]
        elif cmd == 3:
            if not p["sort"]:
                a.append("--no-sort")
            elif bit(9):
                a.append("--sort")
            # the default output location is next to the input: give every run its own copy
            src = os.path.join(real_outdir, os.path.basename(f["hap"]))
            shutil.copy(f["hap"], src)
            if p["explicit"]:
                a += ["-o" if bit(8) else "--output", os.path.join(outdir, "out.hap.gz")]
            a += verb + [src]
        elif cmd == 4 and "clump" in inp:
            cfg, paths = inp["clump"], f["clump"]
            fld = self._clump_fields(inp)
            a += ["--ld", cfg["ld"], "--clump-p1", cfg["p1"], "--clump-p2", cfg["p2"], "--clump-kb", cfg["kb"],
                  "--clump-r2", cfg["r2"], "--clump-id-field", fld["id"], "--clump-field", fld["p"],
                  "--clump-chrom-field", fld["chrom"], "--clump-pos-field", fld["pos"]]
            for opt, key in (("--summstats-snps", "summstats_snps"), ("--summstats-strs", "summstats_strs"),
                             ("--gts-snps", "gts_snps"), ("--gts-strs", "gts_strs")):
                if paths[key]:
                    a += [opt, paths[key]]
            a += ["--out", os.path.join(outdir, "out.clump")] + verb
        elif cmd == 4:
            fld = self._clump_fields(inp)
            a += ["--summstats-snps", f["stats"], "--gts-snps", f["gt"], "--clump-id-field", fld["id"],
                  "--clump-chrom-field", fld["chrom"], "--clump-pos-field", fld["pos"]]
            if fld["p"] != "P":
                a += ["--clump-field", fld["p"]]
            for key, opt in (("p1", "--clump-p1"), ("p2", "--clump-p2"), ("kb", "--clump-kb"), ("r2", "--clump-r2")):
                if p.get(key) is not None:
                    a += [opt, str(p[key])]
            if p["ld"] is not None:
                a += ["--ld", p["ld"]]
            a += ["--out", os.path.join(outdir, "out.clump")] + verb
        elif cmd == 5:
            cfg = inp["cfg"]
            a += ["--model", f["model"], "--mapdir", f["mapdir"] + ("/" if bit(9) else ""), "--ref_vcf", f["ref"],
                  "--sample_info", f["info"], "--seed", str(inp["seed"]), "--popsize", str(cfg["popsize"])]
            if cfg["region"]:
                r = cfg["region"]
                a += ["--region", f"{r['chr']}:{r['start']}-{r['end']}"]
            else:
                a += ["--chroms", ",".join(self._chroms(inp))]
            for key, opt in (("only_bp", "--only_breakpoint"), ("pop_field", "--pop_field"),
                             ("sample_field", "--sample_field"), ("no_replacement", "--no_replacement")):
                if p.get(key):
                    a.append(opt)
            if p.get("chunk") is not None:
                a += ["-c" if bit(10) else "--chunk-size", str(p["chunk"])]
            a += ["--out", os.path.join(outdir, "sim." + p.get("out", "vcf"))] + verb
        else:
            a += ["--bp", f["bp"], "--sample", p["sample"], "--out", os.path.join(outdir, "k.png")]
            if p["title"]:
                a += ["--title", p["title"]]
            if p["colors"]:
                a += ["--colors", p["colors"]]
            if p.get("centromeres"):
                a += ["--centromeres", f["centromeres"]]
            a += verb
        if swap and cmd >= 3:
            # same options in another order: options are position independent
            head, rest = a[:1], a[1:]
            pos = [rest[-1]] if cmd == 3 else []
            opts = rest[:-1] if cmd == 3 else rest
            chunks, j = [], 0
            flags = {"--no-sort", "--sort", "--only_breakpoint", "--pop_field", "--sample_field", "--no_replacement"}
            while j < len(opts):
                if opts[j] in flags:
                    chunks.append(opts[j:j + 1])
                    j += 1
                else:
                    chunks.append(opts[j:j + 2])
                    j += 2
            a = head + [x for c in reversed(chunks) for x in c] + pos
        return a

    def _python(self, inp, f, outdir, logmode="given"):
        """the documented Python entry point on the same parameters; logmode "given": with a logger of the level the
        command line would use, "none": without one (index / transform / simphenotype / ld then make their own, at
        ERROR; the other entry points require one: an ERROR one is made for them)"""
        from pathlib import Path
        from haptools.logging import getLogger

        cmd, p = inp["cmd"], inp["params"]
        if logmode == "given":
            log = getLogger(CMDS[cmd], p.get("verbosity") or "INFO")
        elif cmd <= 3:
            log = None
        else:
            log = getLogger(CMDS[cmd], "ERROR")
        sset = lambda l: None if l is None else set(l)
        real_outdir = outdir
        if p.get("outdir"):
            outdir = os.path.join(outdir, p["outdir"])
        if cmd == 0:
            from haptools.transform import transform_haps

            transform_haps(Path(f["gt"]), Path(f["hp"]), p.get("region"), sset(inp["samples"]), sset(inp["ids"]),
                           p.get("chunk"), p["discard_missing"], bool(p.get("ancestry")), p["maf"],
                           Path(outdir) / ("out.pgen" if p.get("pgen") else "out.vcf"), log)
        elif cmd == 1:
            from haptools.sim_phenotype import simulate_pt

            simulate_pt(Path(f["hg"]), Path(f["hp"]), p["replications"], p.get("environment"), p["heritability"],
                        p["prevalence"], p["normalize"], p.get("region"), sset(inp["samples"]), sset(inp["ids"]),
                        p.get("chunk"), None, inp["seed"], Path(outdir) / "out.pheno", log)
        elif cmd == 2:
            from haptools.ld import calc_ld

            out = Path(outdir) / ("out.ld" if p["from_gts"] else "out.hap")
            calc_ld(p["target"], Path(f["gt"]), Path(f["hp"]), p.get("region"), sset(inp["samples"]),
                    None if inp["ids"] is None else tuple(inp["ids"]), p.get("chunk"), bool(p.get("discard_missing")),
                    p["from_gts"], out, log)
        elif cmd == 3:
            from haptools.index import index_haps

            src = os.path.join(real_outdir, os.path.basename(f["hap"]))
            shutil.copy(f["hap"], src)
            index_haps(Path(src), p["sort"], (Path(outdir) / "out.hap.gz") if p["explicit"] else None, log)
        elif cmd == 4 and "clump" in inp:
            from haptools.clump import clumpstr

            cfg, paths = inp["clump"], f["clump"]
            path = lambda k: None if paths[k] is None else Path(paths[k])
            fld = self._clump_fields(inp)
            clumpstr(path("summstats_snps"), path("summstats_strs"), path("gts_snps"), path("gts_strs"),
                     float(cfg["p1"]), float(cfg["p2"]), fld["id"], fld["p"], fld["chrom"],
                     fld["pos"], float(cfg["kb"]), float(cfg["r2"]), cfg["ld"], Path(outdir) / "out.clump", log)
        elif cmd == 4:
            from haptools.clump import clumpstr

            dflt = lambda k, v: v if p.get(k) is None else p[k]
            fld = self._clump_fields(inp)
            clumpstr(Path(f["stats"]), None, Path(f["gt"]), None, dflt("p1", 0.0001), dflt("p2", 0.01), fld["id"], fld["p"],
                     fld["chrom"], fld["pos"], dflt("kb", 250), dflt("r2", 0.5), p["ld"] or "Pearson",
                     Path(outdir) / "out.clump", log)
        elif cmd == 5:
            import re
            from haptools.sim_genotype import output_vcf, simulate_gt, validate_params, write_breakpoints

            cfg = inp["cfg"]
            out = os.path.join(outdir, "sim." + p.get("out", "vcf"))
            region = dict(cfg["region"]) if cfg["region"] else None
            chroms = [region["chr"]] if region else self._chroms(inp)
            out_prefix = re.split(r"(\.vcf|\.bcf|\.vcf\.gz|\.pgen)$", out)[0]
            # documented: the two flags do not apply to PGEN output
            pgen_out = out.endswith(".pgen")
            popsize = validate_params(f["model"], f["mapdir"], chroms, cfg["popsize"], f["ref"], f["info"],
                                      bool(p.get("no_replacement")), region, p["only_bp"])
            samples, pop_dict, bps = simulate_gt(f["model"], f["mapdir"], chroms, region, popsize, log, inp["seed"])
            bps = write_breakpoints(samples, pop_dict, bps, out_prefix, log)
            if not p["only_bp"]:
                output_vcf(bps, chroms, f["model"], f["ref"], f["info"], region, p["pop_field"] and not pgen_out,
                           bool(p.get("sample_field")) and not pgen_out, bool(p.get("no_replacement")), out, log,
                           p.get("chunk"))
        else:
            from haptools.karyogram import PlotKaryogram

            colors = dict(item.split(":") for item in p["colors"].split(",")) if p["colors"] else None
            PlotKaryogram(f["bp"], p["sample"], os.path.join(outdir, "k.png"), log,
                          centromeres_file=f.get("centromeres"), title=p["title"], colors=colors)

    @staticmethod
    def sequence_of(inp):
        """the runs of a case in the order they are made; inputs recorded before the order was drawn (corpus) have the
        historical order.  Every judged run occurs exactly once."""
        seq = [t for t in (inp.get("seq") or JUDGED) if isinstance(t, dict) or t in JUDGED]
        out, seen = [], set()
        for t in seq:
            if isinstance(t, str):
                if t in seen:
                    continue
                seen.add(t)
            out.append(t)
        return out + [t for t in JUDGED if t not in seen]

    def _history(self, inp, f, d, j, item):
        """an earlier run in the same process; whatever it does, it is only history.  -> the getLogger call it makes"""
        cmd, p = inp["cmd"], inp["params"]
        hd = os.path.join(d, f"h{j}")
        outdir = os.path.join(hd, "o")
        os.makedirs(outdir)
        kind = item.get("h")
        try:
            if kind == "cli":
                v = p.get("verbosity") if item.get("v") == "same" else item.get("v")
                cfg = dict(inp, params=dict(p, verbosity=v))
                with Seen(CMDS[cmd]):
                    invoke(self._argv(cfg, f, hd, outdir, f"h{j}", False))
                return [cmd, LEVELS[v or "INFO"], "new"]
            if kind == "api":
                with Seen(CMDS[cmd], record=True):
                    try:
                        self._python(inp, f, outdir, "none")
                    except BaseException:  # noqa
                        pass
                return [cmd, LEVELS["ERROR"], "own"]
            if kind == "index":
                path = os.path.join(hd, "t.hap")
                with open(path, "w") as fh:
                    fh.write("#\tversion\t0.2.0\nH\t1\t10\t15\tA\nV\tA\t12\t13\trs1\tT\n")
                v = p.get("verbosity") if item.get("v") == "same" else item.get("v")
                with Seen("index"):
                    invoke(["index"] + ([] if v is None else ["-v", v]) + [path])
                return [3, LEVELS[v or "INFO"], "new"]
        except BaseException:  # noqa
            pass
        return None

    def run_impl(self, inp):
        d = tempfile.mkdtemp(prefix="hv_c19_")
        old_tmp = tempfile.tempdir
        tempfile.tempdir = d
        try:
            reset_logging()
            f = self._files(inp, d)
            I = L.Interner()
            res = {}
            cmd, p = inp["cmd"], inp["params"]
            ref = self._without_unknown(inp)
            # the getLogger calls made so far in this process: [subcommand, level, stream]; stream 0 = the
            # process's own stderr, every CliRunner invocation has a stream of its own
            calls, streams = [], [0]

            def call_of(c):
                if c is None:
                    return
                if c[2] == "new":
                    streams[0] += 1
                calls.append([c[0], c[1], streams[0] if c[2] == "new" else 0])

            for j, tok in enumerate(self.sequence_of(inp)):
                if isinstance(tok, dict):
                    call_of(self._history(inp, f, d, j, tok))
                elif tok == "py":
                    outdir = os.path.join(d, "py", "o")
                    os.makedirs(outdir)
                    logmode = inp.get("pylog", "given")
                    with Seen(CMDS[cmd], record=True):
                        try:
                            self._python(inp, f, outdir, logmode)
                            res["py"] = {"ok": intern_outputs(outdir, I), "missing": missing_outputs(inp, outdir)}
                        except SystemExit as e:
                            # karyogram reports an absent sample with sys.exit(1)
                            if e.code in (0, None):
                                res["py"] = {"ok": intern_outputs(outdir, I), "missing": missing_outputs(inp, outdir)}
                            else:
                                res["py"] = {"err": err_kind(e), "cls": "SystemExit", "msg": str(e.code)}
                        except Exception as e:  # noqa
                            res["py"] = {"err": err_kind(e), "cls": type(e).__name__, "msg": str(e)[:200]}
                    call_of([cmd, LEVELS[(p.get("verbosity") or "INFO") if logmode == "given" else "ERROR"], "own"])
                else:
                    if tok == "ref" and ref is None:
                        continue
                    cfg, swap = (ref if tok == "ref" else inp), tok == "alt"
                    outdir = os.path.join(d, tok, "o")
                    os.makedirs(outdir)
                    argv = self._argv(cfg, f, os.path.join(d, tok), outdir, tok, swap)
                    before = [list(c) for c in calls]
                    with Seen(CMDS[cmd]) as seen:
                        code, exc, raised, tail, _usage, err = invoke_full(argv)
                    call_of([cmd, LEVELS[p.get("verbosity") or "INFO"], "new"])
                    logs, warns = parse_printed(err)
                    # what the run reported = what it printed: log lines of level >= WARNING and library warnings
                    res[tok] = {"exit": code, "exc": exc, "raised": raised, "out": intern_outputs(outdir, I), "tail": tail,
                                "msgs": [m for m in logs if m[0] >= 30] + warns, "missing": missing_outputs(cfg, outdir)}
                    if tok == "cli":
                        res["members"] = out_members(cmd, outdir, p)
                        res["log"] = {"calls": before, "call": calls[-1], "recs": seen.recs[:80], "printed": logs[:400]}
            return res
        finally:
            tempfile.tempdir = old_tmp
            shutil.rmtree(d, ignore_errors=True)

    def encode(self, inp, obs):
        cmd = inp["cmd"]
        if "cli" not in obs:
            return (f"(mkcc {cmd} false false false 97 false [] (Err 97) None None false [] "
                    f"None [] None None [] None [] [] None [] (mkcall 0 20 0) [] [])")
        both = inp.get("sform") == "both"
        ids_both = inp.get("iform") == "both"
        c, alt = obs["cli"], obs["alt"]
        I = L.Interner()
        zs = lambda l: L.zl([I(x) for x in l])
        oz = lambda l: "None" if l is None else f"(Some {zs(l)})"
        known_s = known_i = []
        req_s = req_i = sel_i = None
        out_s, out_i = obs.get("members", (None, None))
        p = inp["params"]
        if cmd in (0, 1, 2):
            ds = inp["data"]
            known_s = ds["samples"]
            known_i = [v[0] for v in ds["variants"]] if p.get("from_gts") else [h["id"] for h in ds["haps"]]
            req_s, req_i = inp["samples"], inp["ids"]
            sel_i = inp["ids"]
            if cmd == 2 and req_i is not None and not p.get("from_gts"):
                req_i = req_i + [p["target"]]
            if cmd == 2 and p.get("from_gts") and req_i:
                # --from-gts: the target and the variants of a target haplotype are part of the request
                # (an empty file restricts nothing: DESIGN.md section 10)
                tv = [v[0] for h in ds["haps"] if h["id"] == p["target"] for v in h["vars"]]
                req_i = req_i + tv + [p["target"]]
        # messages: only needed to judge "reported", i.e. when the comparison run without unknown entries exists
        msg = lambda m: f"({L.z(m[0])}, {L.z(I(('msg', m[1])))}, {zs(words_of(m[1]))})"
        ref = "None"
        logs = "[]"
        if "ref" in obs:
            r = obs["ref"]
            ref = (f"(Some ({L.z(r['exit'])}, {L.zl(r['out'])}, "
                   f"{L.zl([I(('msg', m[1])) for m in r['msgs']])}))")
            logs = L.lst(c["msgs"], msg)
        verbose = p.get("verbosity") in (None, "INFO", "WARNING", "DEBUG", "NOTSET")
        # documented outputs that are absent after the run; for index --no-sort into an existing directory the model
        # decides from the order of the data lines whether the run completes
        miss = zs([("file", x) for x in c.get("missing", [])])
        py_miss = zs([("file", x) for x in obs["py"].get("missing", [])])
        index = "None"
        if cmd == 3 and not p["sort"] and not p.get("outdir"):
            t = tbx_triples(inp["lines"])
            if t is not None:
                index = "(Some " + L.lst(t, lambda r: f"({L.z(I(('seq', r[0])))}, {L.z(r[1])}, {L.z(r[2])})") + ")"
        # the model of haptools/logging.py: the getLogger calls before the CLI run, its own, the records that came
        # into being on the subcommand's logger and the log lines it printed
        lg = obs.get("log") or {"calls": [], "call": [cmd, 20, 0], "recs": [], "printed": []}
        mkcall = lambda c: f"(mkcall {L.z(c[0])} {L.z(c[1])} {L.z(c[2])})"
        rec = lambda m: f"({L.z(m[0])}, {L.z(I(('msg', m[1])))})"
        logm = (f"{L.lst(lg['calls'], mkcall)} {mkcall(lg['call'])} {L.lst(lg['recs'], rec)} "
                f"{L.lst(lg['printed'], rec)}")
        return (f"(mkcc {cmd} {L.b(both)} {L.b(ids_both)} {L.b(bool(p.get('from_gts')))} {L.z(c['exit'])} "
                f"{L.b(c['raised'])} {L.zl(c['out'])} "
                f"{L.res(obs['py'], L.zl)} (Some ({L.z(alt['exit'])}, {L.zl(alt['out'])})) {ref} {L.b(verbose)} {logs} "
                f"{oz(req_s)} {zs(known_s)} {oz(out_s)} {oz(sel_i)} {oz(req_i)} {zs(known_i)} {oz(out_i)} "
                f"{miss} {py_miss} {index} {logm})")

    def nontrivial(self, inp, obs):
        if "cli" not in obs:
            return False
        restricted = inp.get("samples") is not None or inp.get("ids") is not None
        return bool(restricted or (obs["cli"]["exit"] == 0 and len(obs["cli"]["out"]) > 2))

    def classes(self, inp, obs):
        name = CMDS[inp["cmd"]]
        out = [name]
        p = inp["params"]
        if inp["cmd"] in (0, 1, 2):
            out.append(f"samples:{inp['sform'] if inp['samples'] is not None else 'none'}")
            out.append(f"ids:{inp['iform'] if inp['ids'] is not None else 'none'}")
            out.append(f"input:{p.get('fmt', 'vcf')}")
            for k, u, st in (("samples", UNKNOWN_S, "sstyle"), ("ids", UNKNOWN_I, "istyle")):
                if inp[k] is not None:
                    if any(e in u for e in inp[k]):
                        out.append(f"unknown-{k}")
                    if len(set(inp[k])) < len(inp[k]):
                        out.append("duplicates")
                    if not inp[k]:
                        out.append(f"empty-{k}-file")
                    elif inp[st] != "lf":
                        out.append(f"{name}:{k}-file-style:{inp[st]}")
            if "ref" in obs:
                out.append(f"{name}:compared-without-unknown-entries")
            for key in ("region", "ancestry", "discard_missing", "from_gts"):
                if p.get(key):
                    out.append(f"{name}:{key}")
            for key in ("maf", "prevalence", "heritability", "environment"):
                if p.get(key) is not None and p[key] == 0:
                    out.append(f"{name}:{key}=0")
            if p.get("chunk") is not None:
                out.append(f"chunk={'1' if p['chunk'] == 1 else ('all+' if p['chunk'] >= len(inp['data']['variants']) else 'k')}")
        if inp["cmd"] in (1, 5):
            out.append(f"{name}:seed={inp['seed'] if inp['seed'] in SEED_BOUNDARY else 'other'}")
        if inp["cmd"] == 4:
            out.append("clump:" + (inp["clump"]["kind"] + ":" + "+".join(k for k in ("snp", "str") if inp["clump"][k])
                                   if "clump" in inp else "snp-defaults"))
        if inp["cmd"] == 5:
            out.append(f"simgenotype:out={p.get('out', 'vcf')}")
        out.append(f"verbosity={p.get('verbosity')}")
        seq = self.sequence_of(inp)
        first = [t for t in seq if isinstance(t, str)][0]
        out.append(f"first-run:{first}")
        if inp.get("pylog") == "none":
            out.append("python-entry-point-without-logger")
        at = seq.index("cli")
        for t in seq:
            if isinstance(t, dict):
                when = "before" if seq.index(t) < at else "after"
                out.append(f"history-{when}-cli:{t['h']}" + (f":-v {t.get('v') or 'default'}" if t["h"] != "api" else ""))
        if "log" in obs and obs["log"]["calls"]:
            lv = obs["log"]["call"][1]
            same = [c for c in obs["log"]["calls"] if c[0] == inp["cmd"]]
            if same:
                out.append("cli-run-after:" + ("less-verbose" if same[0][1] > lv else
                                               ("more-verbose" if same[0][1] < lv else "equally-verbose")) + "-first-call")
        if inp.get("fail"):
            done = "cli" in obs and obs["cli"]["exit"] == 0
            out.append(f"{name}:meant-to-fail:{inp['fail']}" + (":completed-all-the-same" if done else ""))
        if inp.get("wide"):
            out.append(f"{name}:samples={inp['wide']}")
        if inp["cmd"] == 3:
            t = tbx_triples(inp["lines"])
            out.append(f"index:{'gz-input:' if p.get('gz') else ''}{'sort' if p['sort'] else 'no-sort'}:"
                       f"{'unreadable' if t is None else ('tabix-order' if tabix_accepts(t) else 'not-in-tabix-order')}")
        if inp["cmd"] == 5:
            for key in ("only_bp", "pop_field", "sample_field", "no_replacement"):
                if p.get(key):
                    out.append(f"simgenotype:{key}")
            out.append(f"simgenotype:ref={p.get('ref_fmt', 'vcf')}")
        if inp["cmd"] == 6 and p.get("centromeres"):
            out.append("karyogram:centromeres")
        if inp["cmd"] == 1 and p.get("effects") == "snplist":
            out.append("simphenotype:snplist")
        if inp["cmd"] == 0 and p.get("pgen"):
            out.append("transform:output=pgen")
        if "cli" in obs:
            if obs["cli"].get("missing"):
                out.append(f"{name}:documented-output-missing")
            out.append(f"{name}:exit={obs['cli']['exit']}")
            if "err" in obs["py"]:
                out.append(f"{name}:py-raised-{obs['py'].get('cls')}")
        return out

    def shrink(self, inp):
        # fewer earlier runs, the historical order, the entry point with a logger
        seq = self.sequence_of(inp)
        hist = [k for k, t in enumerate(seq) if isinstance(t, dict)]
        if hist:
            yield dict(inp, seq=[t for t in seq if not isinstance(t, dict)])
            if len(hist) > 1:
                for k in hist:
                    yield dict(inp, seq=seq[:k] + seq[k + 1:])
        judged = [t for t in seq if isinstance(t, str)]
        if judged != JUDGED:
            at = ([k for k, t in enumerate(seq) if isinstance(t, dict) and k < seq.index("cli")])
            yield dict(inp, seq=[seq[k] for k in at] + JUDGED + [t for k, t in enumerate(seq)
                                                                 if isinstance(t, dict) and k not in at])
        # a run made before the command-line run under test is made after it instead
        at = seq.index("cli")
        for k in range(at):
            yield dict(inp, seq=seq[:k] + seq[k + 1:at + 1] + [seq[k]] + seq[at + 1:])
        if inp.get("pylog") == "none":
            yield dict(inp, pylog="given")
        if inp["cmd"] in (0, 1, 2):
            if inp.get("iform") == "both":
                yield {k: v for k, v in dict(inp, iform="file").items() if k != "ids_extra"}
            for k, f, st in (("samples", "sform", "sstyle"), ("ids", "iform", "istyle")):
                if inp[k] is not None:
                    if not (k == "samples" and inp["sform"] == "both") and not (k == "ids" and inp["iform"] == "both"):
                        yield dict(inp, **{k: None, f: "opts", st: "lf"})
                    for j in range(len(inp[k])):
                        if len(inp[k]) > 1:
                            yield dict(inp, **{k: inp[k][:j] + inp[k][j + 1:]})
                    if inp[st] not in ("lf", "empty"):
                        yield dict(inp, **{st: "lf"})
            p = inp["params"]
            for key, v in (("region", None), ("maf", None), ("discard_missing", False), ("prevalence", None),
                           ("heritability", None), ("replications", 1), ("environment", None), ("ancestry", False),
                           ("chunk", None), ("pgen", False), ("fmt", "vcf"), ("effects", "hap"), ("verbosity", None),
                           ("normalize", True)):
                if key in p and p[key] != v:
                    yield dict(inp, params=dict(p, **{key: v}))
        if inp["cmd"] == 3:
            from . import c11

            for l in c11.shrink_lines(inp["lines"]):
                yield dict(inp, lines=l)
            if not inp["params"]["explicit"]:
                yield dict(inp, params=dict(inp["params"], explicit=True))
            if inp["params"].get("gz"):
                yield dict(inp, params=dict(inp["params"], gz=False))
        if inp["cmd"] >= 3 and inp["params"].get("verbosity") is not None:
            yield dict(inp, params=dict(inp["params"], verbosity=None))
        if inp["cmd"] in (1, 5) and inp["seed"] not in (0, 1):
            yield dict(inp, seed=1)
        if inp["spell"]:
            yield dict(inp, spell=0)

    def mutate(self, inp, rng):
        if inp["cmd"] == 3:
            # the same lines in other orders, with and without sorting
            for _ in range(4):
                perm = [inp["lines"][int(j)] for j in rng.permutation(len(inp["lines"]))]
                head = [x for x in perm if x.startswith("#")]
                yield dict(inp, lines=head + [x for x in perm if not x.startswith("#")],
                           params=dict(inp["params"], sort=bool(rng.random() < 0.3)))
        for s in SEED_BOUNDARY:
            if inp["cmd"] in (1, 5) and inp["seed"] != s:
                yield dict(inp, seed=s)
        for _ in range(3):
            yield dict(inp, spell=int(rng.integers(0, 1 << 12)), seed=int(rng.integers(1, 2**31 - 1)))

    def signature(self, inp, obs):
        if "cli" not in obs:
            return f"cli {CMDS[inp['cmd']]} unobserved"
        files = [n for n, k, f in (("samples-file", "samples", "sform"), ("ids-file", "ids", "iform"))
                 if inp.get(k) is not None]
        ref = obs.get("ref")
        # what ran earlier in the process, as far as the subcommand's logger goes: the level of the FIRST getLogger
        # call of that name relative to this run's (none / less / equally / more verbose)
        lg = obs.get("log") or {}
        same = [c for c in lg.get("calls", []) if c[0] == inp["cmd"]]
        lv = (lg.get("call") or [0, 20, 0])[1]
        eff = lambda v: 30 if v == 0 else v
        first = (None if not same else
                 ("less-verbose" if eff(same[0][1]) > eff(lv) else
                  ("more-verbose" if eff(same[0][1]) < eff(lv) else "equally-verbose")))
        unprinted = [r for r in lg.get("recs", []) if r not in lg.get("printed", [])]
        return (f"cli {CMDS[inp['cmd']]}"
                + (f" first-earlier-use-of-its-logger={first}" if first else "")
                + (" created-records-not-printed" if unprinted else "")
                + f" selection={'+'.join(files) or 'none'} exit={obs['cli']['exit']} "
                + f"raised={obs['cli']['exc']} respelled-exit={obs['alt']['exit']} respelled-raised={obs['alt']['exc']} "
                f"python={'ok' if 'ok' in obs['py'] else obs['py'].get('cls')}"
                + (f" without-unknown-exit={ref['exit']}" if ref else "")
                + (f" documented-outputs-missing={sorted(obs['cli']['missing'])}" if obs["cli"].get("missing") else ""))


class TVResolve(Resolve):
    """The invocations of the resolve relation (same generator, same exhaustive scope, same recorder in place of the entry
    point), with the front end of the command evaluated from the MiniPy syntax regenerated from the current source of
    haptools/__main__.py: agree = the interpreted slice calls the entry point with the collections (members and Python
    type: None / set / tuple) the real command function passed to it, or raises the error kind that gives the observed
    exit status.  Validates the translator and the interpreter (truth values of tuples / file objects / None, `and`,
    `with`, set(), tuple(), the raise) against the real code; holds is judged by the resolve relation."""
    name = "tv_resolve"
    coq_lib = "HVG"
    coq_module = "TVM_C19"
    coq_check = "check_tv_resolve"
    coq_case_type = "tvrcase"
    coq_model = "tv_model_resolve"
    coq_imports = ["C19_Model", "C19_Check"]
    budget = {"quick": 300, "thorough": 6000}

    def signature(self, inp, obs):
        return "tv_resolve: the translated front end and the click command disagree; " + super().signature(inp, obs)


RELATIONS = [Resolve(), Cli(), TVResolve()]

LEVEL_TEXT = (
    "Coq theorems over all ID/sample lists (strings as code-point lists, no size bound) about a Gallina model of the "
    "option post-processing in haptools/__main__.py (splitlines, every file shape a user writes - LF, unterminated, "
    "CRLF, blank last line -, both-forms usage error, file-over-options for IDs, exit status, selection by "
    "membership); tied to /repo on every run by evaluating in Coq model-vs-implementation agreement on what the entry "
    "points receive (recorder in place of the entry point) and, for all seven subcommands, CliRunner-vs-Python-entry-"
    "point output equality, respelled command lines, exit codes, and the run without its unknown entries (ignored / "
    "reported). 'A failing run exits non-zero': a file-level Gallina model of index_haps' tail (tabix accepted/refused, "
    "copy + unlink of the two temporary files) with theorems exit 0 <=> both documented files written <=> the data "
    "lines are in the order tabix accepts (declarative characterisation, both directions, by induction), the refuted "
    "'copy only if it exists' variant, and checker-soundness theorems for the clause 'documented output missing or "
    "entry point raises => exit != 0' that is evaluated on every run of every subcommand, incl. configurations meant "
    "to fail. 'Reported', whatever ran before: a Gallina model of haptools/logging.py's getLogger (one logger object "
    "per name, setLevel, a new console handler of the call's level on the sys.stderr of that moment) with theorems "
    "that what a run shows is a function of its own verbosity for every sequence of earlier calls, how often a line "
    "appears, the refuted 'return the logger as it is when it already has a handler' variant (the first call of the "
    "name decides), tied to /repo by comparing, for every command-line run, the records created on the subcommand's "
    "logger with the log lines it printed, after drawn histories in the same process."
)
LEVEL_NOTE = (
    "Partial: click's own parsing is trusted; the theorems cover the option-resolution logic and selection by "
    "membership, the equality of whole-command outputs is established by the correspondence run only. 'reported' is "
    "checked as 'a warning that is absent without the unknown entries and names one of them' everywhere and as 'every "
    "one named in a warning' where the commands name entries (IDs of transform / simphenotype, haplotype IDs of ld), "
    "on the text the command printed (CliRunner), after other runs in the same process. "
    "Of the failing runs only index's is modelled; for the other six subcommands 'failing => non-zero' is the checked "
    "clause on generated failing configurations."
)
TECHNIQUE = "Coq proof by induction on code-point lists + vm_compute-evaluated correspondence against the implementation"
