"""C20 - simgenotype rejects malformed inputs up front and completes on well-formed ones.

Relations
  front : validate_params -> simulate_gt (up to the first call of _simulate = "up front")
          -> write_breakpoints, on generated configurations: valid ones (any whitespace,
          +-region, +-only_breakpoint, VCF or PGEN reference, +-no_replacement, and a
          --popsize grid 1, 2, 2n-1, 2n, 2n+1, 10n-1, 10n, 10n+1, 10000 crossed with these
          options) and one mutator per documented requirement (first / middle / last line),
          plus an "undocumented malformation" stream that is compared with the model only.
          After acceptance: the population size every call of _simulate receives, and the
          written .bp file parsed by an independent parser (C02's file checker runs on it).
  cli   : `haptools simgenotype` through click's CliRunner on one fixed valid configuration
          with generated --region / --chroms / --popsize (absent = click's default) /
          --only_breakpoint: the arguments validate_params receives, the population size
          _simulate receives, the written .bp file and the final outcome.
  decision : validate_params + _prepare_coords alone (nothing is simulated) on configurations
          whose sample count / population size / generation number / region coordinates are
          around 2^31, 2^32, 2^63, 10^30: acceptance and the effective population size, or
          the refusal.
The front stream also holds: two documented requirements violated at once (the refusal has to
name one of them), Valid configurations on width boundaries (region end / start and last map
position next to the int32 sentinel, 2^32, 2^63; 127 | 128 samples), and - compared with the
model only - maps whose cM decreases, a region with several chromosomes, markers at or beyond
the sentinel.
"""
import copy
import os
import re
import shutil
import tempfile

import numpy as np

from . import coqlit as L
from .c01 import make_config
from .core import Relation, err_kind

PROP = "C20"
CLAIMED = True
COQ_MODULES = ["C02_Check", "C20_Check", "C20_Proofs", "C20_Proofs2", "C20_Proofs3", "C20_Proofs4",
               "C20_ProofsRefuse", "C20_Sim", "C20_ProofsSim", "C20_ProofsSim2", "C20_ProofsSim3", "C20_ProofsSim4"]
PROPERTY_MODULE = "C20_Property"
ALLOWED_AXIOMS = []
RULE = (
    "front: a configuration is non-trivial when it is Valid (all requirements with margin; must be accepted, "
    "the value validate_params returns and the population size every _simulate call receives >= 10*samples, simulated "
    "to completion within the time limit, the written .bp passing C02's file checker: 2n framed haplotypes each tiling "
    "every requested chromosome up to the sentinel with positive-fraction source labels) or violates a documented requirement and nothing else "
    "(must be refused before the first generation by an error naming a violated requirement). "
    "cli: non-trivial = the option strings parse. decision: non-trivial = Valid or a documented violation (quantities around "
    "2^31 .. 10^30; nothing is simulated, only acceptance + effective population size / the refusal are judged). "
    "Distinct = distinct canonical JSON of the input."
)
TRUSTED = [
    "float32 parsing/summation of the fractions is modelled by exact rationals: generated sums are exactly 1 "
    "or off by >= 1e-3, float32 error for <= 8 fractions is < 4e-7 (property: 'by a clear margin')",
    "Python int()/float()/str.split()/re.search are modelled for ASCII tokens (no inf/nan spellings, no non-ASCII digits)",
    "glob listing of the map directory (file names) and os.path.isdir are inputs of the model",
    "deliberate refusals are recognised by message keywords (MESSAGES); an unknown wording of a plain Exception / click "
    "error counts as an explanatory refusal of unknown class (holds accepts it, agree does not)",
    "the simulation after acceptance is observed on the implementation (completion, population sizes, the written file); the "
    "theorem C20_accepted_completes is about the composed model (C20's front + C01/C02's simulation + write_breakpoints) under "
    "numpy's contracts on the draws (stream_ok, idx_ok) - the draws of a C20 run are not recorded, C01/C02 tie that part of the "
    "model to the code with recorded draws",
    "the .bp file is parsed by this module's own parser (labels -> index among the header's population columns, "
    "X -> 23); the cM column is not encoded (no demand on it) and haptools' own readers are not run (C02 does both)",
    "'simulated to completion' = simulate_gt and write_breakpoints return within SIM_TIMEOUT seconds "
    "(6 s for populations <= 1000, 30 s above; such runs take milliseconds resp. about a second)",
]
ASSUMPTIONS = [
    "Valid adds to the documented requirements what the property's last sentence and the docs say: fractions in [0,1], "
    "first generation without admixed contribution, at least one generation line, chromosome list sorted, each map "
    "sorted by position (bp strictly increasing in [0, 2^31-1), cM never decreasing) and belonging to the chromosome of its "
    "file name, a region only together with exactly one chromosome (what the CLI passes)",
    "reference / sample-info requirements are demanded only without --only_breakpoint (they are not read otherwise)",
    "cli: the requirements are judged on the arguments validate_params actually received",
    "the chromosome end in a .bp file is the int32 sentinel 2147483647 also with --region (C02: _prepare_coords sets the "
    "last kept marker to it), so C02's tilesb needs only the requested chromosomes in order",
    "'effective population size' is read as both the value validate_params returns and the population size handed to "
    "every call of _simulate; only '>= 10 * samples' is demanded (the text does not say '>= --popsize')",
    "undocumented malformations (blank lines, non-numeric fraction / map tokens, empty map file, unreadable reference, "
    "fractions outside [0,1] summing to 1, admixed contribution in the first generation, unsorted / repeated chromosomes, "
    "cM going down along a map, a region with several chromosomes, markers at or beyond 2^31-1) "
    "are compared with the model only; the property's list of refusals does not name them (the code accepts most of them and "
    "the simulation then fails or mis-tiles: C20_accepted_then_failing shows it on the model)",
    "two documented requirements violated at once: the refusal has to name one of the violated ones",
]

MESSAGES = [
    ("Can't convert samples number", 1), ("Invalid number of populations", 2),
    ("Number of samples is less than 1", 3), ("Can't convert generation to integer", 4),
    ("Can't convert population fractions", 5), ("do not match number of populations", 6),
    ("Please ensure the generations given", 7), ("do not sum to 1", 8),
    ("Map directory given is not a valid path", 9), ("in the list given is not valid", 10),
    ("No valid coordinate files found", 11), ("Popsize is not an Integer", 12),
    ("Popsize must be greater than 0", 13), ("Unable to collect vcf samples", 14),
    ("is not present in the vcf file", 15), ("is not present in the sample info file", 16),
    ("does not have enough samples to sample without replacement", 17), ("End coordinates in region", 18),
    ("Unable to find all chromosomes", 19), ("incorrect amount of fields", 20),
    ("Unable to parse region", 21), ("Either chroms or region must be specified", 22),
]
CLAUSE_OF = {1: 1, 3: 1, 2: 2, 4: 3, 7: 3, 6: 4, 8: 5, 5: 5, 10: 6, 11: 7, 19: 7, 9: 7, 20: 8, 13: 9,
             15: 10, 16: 10, 14: 10, 17: 11, 18: 12}
CLAUSE_TEXT = {
    1: "non-integer or < 1 sample count", 2: "fewer than two source populations",
    3: "non-integer or non-increasing generations", 4: "wrong number of fractions",
    5: "fractions not summing to 1", 6: "unknown chromosome name", 7: "no map for a requested chromosome",
    8: "malformed map line", 9: "non-positive population size",
    10: "reference samples / model populations absent from sample-info or reference",
    11: "too few samples for sampling without replacement", 12: "region start exceeds end",
}


def classify_exc(e):
    msg = str(getattr(e, "message", None) or e)
    for key, k in MESSAGES:
        if key in msg:
            return {"reject": k, "msg": msg[:160], "cls": type(e).__name__}
    # a deliberate `raise Exception(...)` / click error whose wording is not one of the known messages:
    # still an explanatory refusal (class 0: the model does not know it, the property does not object)
    if type(e) is Exception or type(e).__module__.startswith("click"):
        return {"reject": 0, "msg": msg[:160], "cls": type(e).__name__}
    return {"crash": err_kind(e), "msg": msg[:160], "cls": type(e).__name__}


# ---------------------------------------------------------------------------
# structured configurations -> text


WS = ["\t", " ", "  ", " \t", "\t\t", "\x0b", "\x0c ", "   "]


def frac_token(k, rng):
    """k ten-thousandths as a decimal token, several spellings of the same number."""
    style = int(rng.integers(0, 6))
    if k % 10000 == 0 and style < 3:
        return str(k // 10000)
    s = f"{k / 10000:.4f}"
    if style == 1:
        s = s.rstrip("0")
        s = s + "0" if s.endswith(".") else s
    elif style == 2 and s.startswith("0."):
        s = s[1:]
    elif style == 3:
        s = f"{k}e-4"
    elif style == 4 and k >= 0:
        s = "+" + s
    return s


POPSIZE_GRID = ["1", "2", "2n-1", "2n", "2n+1", "10n-1", "10n", "10n+1", "default"]


def popsize_of(tag, n):
    """--popsize boundary values: 2n haplotypes are drawn without replacement from the last generation, and the
    effective size must be >= 10n; 'default' is click's default of the CLI option."""
    return {"1": 1, "2": 2, "2n-1": max(1, 2 * n - 1), "2n": 2 * n, "2n+1": 2 * n + 1, "10n-1": 10 * n - 1,
            "10n": 10 * n, "10n+1": 10 * n + 1, "default": 10000}[tag]


def pick_popsize(n, rng):
    # 'default' (a second per run) is kept rare
    tag = str(rng.choice(POPSIZE_GRID[:-1])) if rng.random() < 0.96 else "default"
    return popsize_of(tag, n), tag


def structured(rng):
    """A Valid configuration in structured (token) form."""
    cfg = make_config(rng)
    K = len(cfg["pops"])
    nsamp = cfg["nsamples"]
    gt = []
    for ln in cfg["model"]:
        ints = [int(round(x * 10000)) for x in ln[1:]]
        ints[-1] = 10000 - sum(ints[:-1])
        if ints[-1] < 0 or ints[-1] > 10000:
            ints = [ints[0]] + [0] * (K - 1) + [10000 - ints[0]]
        gt.append({"g": int(ln[0]), "fr": ints})
    gt[0]["fr"][0] = 0
    rest = gt[0]["fr"][1:]
    gt[0]["fr"][-1] += 10000 - sum(rest)
    files = []
    for c in cfg["chroms"]:
        rows = [[str(r[0]), ".", f"{r[1]:.6f}", str(r[2])] for r in cfg["maps"][c]]
        files.append([f"{rng.choice(['g', 'plink', 'map_b38'])}.chr{c}{rng.choice(['', '.GRCh38', '_v2'])}.map", rows])
    # distractors that must be ignored: other chromosomes, files not ending in .map
    if rng.random() < 0.4:
        other = [c for c in ["3", "7", "11", "21", "X"] if c not in cfg["chroms"]]
        if other:
            c = str(rng.choice(other))
            files.append([f"g.chr{c}.map", [[c, ".", "0.0", "5"], [c, ".", "1.0", "50"]]])
    if rng.random() < 0.3:
        files.append([f"notes.chr{cfg['chroms'][0]}.txt", [["free", "text"]]])
    srows, ref = [], []
    sid = 0
    for p in cfg["pops"]:
        for _ in range(int(rng.integers(nsamp, nsamp + 3))):
            srows.append([f"S{sid}", p])
            ref.append(f"S{sid}")
            sid += 1
    # rows of populations that the model does not use, naming samples absent from the reference: allowed
    if rng.random() < 0.4:
        srows.insert(int(rng.integers(0, len(srows) + 1)), [f"Z{sid}", "OTHER"])
    ref += [f"R{j}" for j in range(int(rng.integers(0, 3)))]
    return {
        "htoks": [str(nsamp), "Admixed"] + list(cfg["pops"]),
        "gens": gt,
        # the directory's own name may look like a chromosome; only file names count
        "mapdir": "maps" if rng.random() < 0.85 else str(rng.choice(["chr9_maps", "maps_chr22", "chrX", "b38.chr1"])),
        "files": files,
        "chroms": list(cfg["chroms"]),
        "popsize": int(cfg["popsize"]) if rng.random() < 0.7 else pick_popsize(nsamp, rng)[0],
        "only_bp": bool(rng.random() < 0.45),
        "ref": {"kind": str(rng.choice(["vcf", "vcf", "pgen"])), "samples": ref},
        "srows": srows,
        "norepl": bool(rng.random() < 0.3),
        "region": [cfg["region"]["start"], cfg["region"]["end"]] if cfg["region"] else None,
        "seed": int(cfg["seed"]),
    }


def gen_line_tokens(g, rng):
    return [str(g["g"])] + [frac_token(k, rng) if isinstance(k, int) else k for k in g["fr"]]


def render(s, rng, label):
    """Structured configuration -> explicit text input (so that a replay is exact)."""
    def line(toks):
        if toks is None:
            return ""
        out = ""
        if rng.random() < 0.25:
            out += str(rng.choice([" ", "\t", "  "]))
        plain = rng.random() < 0.5
        for j, t in enumerate(toks):
            if j:
                out += "\t" if plain else str(rng.choice(WS))
            out += t
        if rng.random() < 0.25:
            out += str(rng.choice([" ", "\t", " \t "]))
        return out

    gl = []
    for g in s["gens"]:
        gl.append(line(g["raw"]) if "raw" in g else line(gen_line_tokens(g, rng)))
    return {
        "header": line(s["htoks"]) if s["htoks"] is not None else None,
        "gens": gl,
        "eol": str(rng.choice(["\n", "\n", "\r\n"])),
        "mapdir": s["mapdir"],
        "mkdir": s.get("mkdir", True),
        "files": [[nm, [line(r) for r in rows]] for nm, rows in s["files"]],
        "chroms": s["chroms"],
        "popsize": s["popsize"],
        "only_bp": s["only_bp"],
        "ref": s["ref"],
        "sinfo": [line(r) for r in s["srows"]],
        "norepl": s["norepl"],
        "region": s["region"],
        "seed": s["seed"],
        "label": label,
    }


def pick_line(n, rng):
    """first, a middle or the last line"""
    where = str(rng.choice(["first", "middle", "last"]))
    if where == "first" or n == 1:
        return 0, "first" if n > 1 else "only"
    if where == "last" or n == 2:
        return n - 1, "last"
    return int(rng.integers(1, n - 1)), "middle"


def renumber_more_lines(s, rng):
    """make sure the model has >= 3 generation lines so that first/middle/last differ"""
    while len(s["gens"]) < 3:
        last = s["gens"][-1]
        s["gens"].append({"g": last["g"] + int(rng.integers(1, 3)), "fr": [10000] + [0] * (len(last["fr"]) - 1)})


# ---- one mutator per documented requirement: each returns a label or None when not applicable


def m_samples_nonint(s, rng):
    s["htoks"][0] = str(rng.choice(["abc", "1.5", "2x", "1e1", "ten", "0x2", "3,0", "--2", "1_", "2.0"]))
    return "1:samples-non-integer"


def m_samples_lt1(s, rng):
    s["htoks"][0] = str(rng.choice(["0", "-1", "-40", "+0", "00"]))
    return "1:samples-lt-1"


def m_one_pop(s, rng):
    keep = int(rng.choice([0, 1]))
    s["htoks"] = s["htoks"][:2 + keep]
    for g in s["gens"]:
        a = g["fr"][0]
        g["fr"] = [a, 10000 - a] if keep else [10000]
    if not keep:
        s["gens"][0]["fr"] = [10000]
    return f"2:{keep}-source-populations"


def m_gen_nonint(s, rng):
    renumber_more_lines(s, rng)
    j, w = pick_line(len(s["gens"]), rng)
    s["gens"][j]["g"] = str(rng.choice(["one", "1.0", "2.5", "3rd", "1e0", "g2", "4,", "0x3"]))
    return f"3:generation-non-integer@{w}"


def m_gen_order(s, rng):
    renumber_more_lines(s, rng)
    j, w = pick_line(len(s["gens"]), rng)
    prev = s["gens"][j - 1]["g"] if j else 0
    s["gens"][j]["g"] = prev - int(rng.choice([0, 0, 1, 3]))
    for k in range(j + 1, len(s["gens"])):           # keep the following lines increasing
        s["gens"][k]["g"] = max(s["gens"][k]["g"], s["gens"][k - 1]["g"] + 1)
    return f"3:generation-not-increasing@{w}"


def m_frac_count(s, rng):
    renumber_more_lines(s, rng)
    j, w = pick_line(len(s["gens"]), rng)
    fr = s["gens"][j]["fr"]
    if rng.random() < 0.5:
        fr.insert(int(rng.integers(1, len(fr) + 1)), 0)          # one fraction too many (sum unchanged)
        return f"4:one-fraction-too-many@{w}"
    a = fr.pop()
    fr[-1] += a                                                  # one too few (sum unchanged)
    return f"4:one-fraction-too-few@{w}"


def m_frac_sum(s, rng):
    renumber_more_lines(s, rng)
    j, w = pick_line(len(s["gens"]), rng)
    fr = s["gens"][j]["fr"]
    k = int(rng.integers(1, len(fr)))
    d = int(rng.choice([10, 100, 1000, 5000]))                   # off by 1e-3 .. 0.5
    fr[k] = fr[k] + d if (fr[k] + d <= 10000 and rng.random() < 0.6) or fr[k] - d < 0 else fr[k] - d
    return f"5:sum-off-by-{d}e-4@{w}"


def m_chrom_name(s, rng):
    j = int(rng.integers(0, len(s["chroms"])))
    bad = str(rng.choice(["23", "0", "chr1", "Y", "MT", "x", "01", "24", "1 "]))
    old = s["chroms"][j]
    s["chroms"][j] = bad
    if s["region"] is not None:
        pass
    if bad.isdigit():                                            # give it a map, so that only the name is wrong
        for f in s["files"]:
            if re.search(r"chr" + re.escape(old) + r"(?!\d)", f[0]):
                f[0] = f[0].replace("chr" + old, "chr" + bad)
    return "6:unknown-chromosome-name"


def _file_of(s, c):
    for k, f in enumerate(s["files"]):
        m = re.search(r"(?<=chr)(X|\d+)", f[0])
        if m and m.group() == c and f[0].endswith(".map"):
            return k
    return None


def m_map_missing(s, rng):
    j = int(rng.integers(0, len(s["chroms"])))
    k = _file_of(s, s["chroms"][j])
    how = str(rng.choice(["deleted", "not-dot-map", "name-without-chr"]))
    if how == "deleted":
        del s["files"][k]
    elif how == "not-dot-map":
        s["files"][k][0] = s["files"][k][0][:-4] + str(rng.choice([".txt", ".map.gz", ".MAP", ".map.bak"]))
    else:
        s["files"][k][0] = s["files"][k][0].replace("chr", str(rng.choice(["chrom", "c", "Chr", "chr_"])))
    return f"7:map-{how}"


def m_map_missing_dup(s, rng):
    """the map of one chromosome is missing while another chromosome has two maps"""
    if len(s["chroms"]) < 2:
        return None
    j = int(rng.integers(0, len(s["chroms"])))
    k = _file_of(s, s["chroms"][j])
    others = [c for c in s["chroms"] if c != s["chroms"][j]]
    d = str(rng.choice(others))
    src = s["files"][_file_of(s, d)]
    s["files"][k] = ["copy_of." + src[0], copy.deepcopy(src[1])]
    return "7:map-missing-while-another-chromosome-has-two"


def m_map_line(s, rng):
    j = int(rng.integers(0, len(s["chroms"])))
    if s["region"] is not None:
        j = 0
    rows = s["files"][_file_of(s, s["chroms"][j])][1]
    i, w = pick_line(len(rows), rng)
    how = str(rng.choice(["3-fields", "5-fields", "2-fields", "blank"]))
    if how == "3-fields":
        del rows[i][int(rng.integers(0, 4))]
    elif how == "5-fields":
        rows[i].insert(int(rng.integers(0, 5)), str(rng.choice(["0", ".", "rs1"])))
    elif how == "2-fields":
        rows[i] = rows[i][:2]
    else:
        rows[i] = None
    return f"8:map-line-{how}@{w}"


def m_popsize(s, rng):
    s["popsize"] = int(rng.choice([0, -1, -10000]))
    return "9:popsize-non-positive"


def m_sample_absent(s, rng):
    s["only_bp"] = False
    src = s["htoks"][2:]
    rows = [k for k, r in enumerate(s["srows"]) if r[1] in src]
    k = int(rng.choice(rows))
    if rng.random() < 0.5:
        s["srows"][k][0] = "NOT_IN_REFERENCE"
    else:
        s["ref"]["samples"] = [x for x in s["ref"]["samples"] if x != s["srows"][k][0]]
    return "10:sample-info-sample-absent-from-reference"


def m_pop_absent(s, rng):
    s["only_bp"] = False
    s["norepl"] = False
    p = str(rng.choice(s["htoks"][2:]))
    if rng.random() < 0.5:
        s["srows"] = [r for r in s["srows"] if r[1] != p]
    else:
        for r in s["srows"]:
            if r[1] == p:
                r[1] = p.lower() + "_"
    return "10:model-population-absent-from-sample-info"


def m_norepl(s, rng):
    s["only_bp"] = False
    s["norepl"] = True
    n = int(rng.choice([3, 4, 6]))
    s["htoks"][0] = str(n)
    p = str(rng.choice(s["htoks"][2:]))
    # every population has >= n rows except p, which keeps 1 .. n-1
    sid = 1000
    for q in s["htoks"][2:]:
        have = sum(1 for r in s["srows"] if r[1] == q)
        for _ in range(max(0, n - have)):
            s["srows"].append([f"S{sid}", q])
            s["ref"]["samples"].append(f"S{sid}")
            sid += 1
    keep = int(rng.integers(1, n))
    out, seen = [], 0
    for r in s["srows"]:
        if r[1] == p:
            seen += 1
            if seen > keep:
                continue
        out.append(r)
    s["srows"] = out
    return "11:too-few-samples-without-replacement"


def m_region(s, rng):
    c = s["chroms"][0]
    rows = s["files"][_file_of(s, c)][1]
    bps = [int(r[3]) for r in rows]
    s["chroms"] = [c]
    how = str(rng.choice(["spanning-markers", "inside-one-gap", "far-apart", "by-one"]))
    if how == "spanning-markers":
        a, b = bps[-1] + 5, bps[0] - min(5, bps[0])
    elif how == "inside-one-gap" and bps[1] - bps[0] > 4:
        a, b = bps[1] - 1, bps[0] + 1
    elif how == "far-apart":
        a, b = 10 ** 9, 1
    else:
        a = int(rng.choice(bps))
        b = a - 1
    s["region"] = [int(a), int(b)]
    if rng.random() < 0.6:
        s["only_bp"] = True
    return f"12:region-start-gt-end-{how}" + ("+only_bp" if s["only_bp"] else "")


MUTATORS = [m_samples_nonint, m_samples_lt1, m_one_pop, m_gen_nonint, m_gen_order, m_frac_count, m_frac_sum,
            m_chrom_name, m_map_missing, m_map_missing_dup, m_map_line, m_popsize, m_sample_absent, m_pop_absent,
            m_norepl, m_region]


# ---- undocumented malformations: compared with the model only (holds makes no demand)


def u_blank_gen(s, rng):
    renumber_more_lines(s, rng)
    j = int(rng.choice([1, len(s["gens"]) - 1, len(s["gens"])]))
    s["gens"].insert(j, {"raw": None})
    return "u:blank-generation-line"


def u_frac_token(s, rng):
    j = int(rng.integers(0, len(s["gens"])))
    k = int(rng.integers(0, len(s["gens"][j]["fr"])))
    s["gens"][j]["fr"][k] = str(rng.choice(["half", "0,5", "1/2", "0.5.0", "--1", "1e", "."]))
    return "u:fraction-not-a-number"


def u_map_token(s, rng):
    rows = s["files"][_file_of(s, s["chroms"][0])][1]
    i = int(rng.integers(0, len(rows)))
    k = int(rng.choice([0, 2, 3]))
    rows[i][k] = str(rng.choice(["chr1", "NA", "1.5e", "12k", "", "x"]) or "?")
    return f"u:map-field-{k}-not-a-number"


def u_empty_map(s, rng):
    j = int(rng.integers(0, len(s["chroms"])))
    s["files"][_file_of(s, s["chroms"][j])][1] = []
    return "u:empty-map-file"


def u_mapdir(s, rng):
    s["mapdir"] = "no_such_dir"
    return "u:map-directory-missing"


def u_ref(s, rng):
    s["only_bp"] = False
    s["ref"]["kind"] = str(rng.choice(["missing", "missing-pgen"]))
    return "u:reference-unreadable"


def u_sinfo_short(s, rng):
    s["only_bp"] = False
    j = int(rng.integers(0, len(s["srows"]) + 1))
    s["srows"].insert(j, [str(rng.choice(["S0", "lonely"]))] if rng.random() < 0.6 else None)
    return "u:sample-info-line-with-one-field"


def u_unsorted_chroms(s, rng):
    if len(s["chroms"]) < 2 or s["region"] is not None:
        return None
    s["chroms"] = s["chroms"][::-1]
    return "u:chromosomes-not-sorted"


def u_frac_range(s, rng):
    renumber_more_lines(s, rng)
    j = int(rng.integers(0, len(s["gens"])))
    fr = s["gens"][j]["fr"]
    if len(fr) < 3:
        return None
    fr[1], fr[2] = fr[1] + 10000, fr[2] - 10000
    return "u:fractions-outside-0-1-summing-to-1"


def u_first_admixed(s, rng):
    fr = s["gens"][0]["fr"]
    fr[0], fr[1:] = 5000, [5000] + [0] * (len(fr) - 2)
    return "u:first-generation-with-admixed-contribution"


def u_no_gens(s, rng):
    s["gens"] = []
    return "u:no-generation-line"


def u_empty_model(s, rng):
    s["htoks"] = None if rng.random() < 0.5 else []
    s["gens"] = [] if s["htoks"] is None else s["gens"]
    return "u:empty-model-file-or-header"


def u_surplus_map(s, rng):
    c = str(rng.choice(s["chroms"]))
    src = s["files"][_file_of(s, c)]
    s["files"].append(["second." + src[0], copy.deepcopy(src[1])])
    return "u:two-maps-for-one-chromosome"


def u_dup_chrom(s, rng):
    if s["region"] is not None:
        return None
    s["chroms"] = s["chroms"] + [s["chroms"][-1]]
    return "u:chromosome-requested-twice"


def u_cm_decreasing(s, rng):
    """genetic positions going down while base-pair positions go up: accepted; the events of a child are then ordered
    by cM, not by bp, and the written blocks need not increase (C20_accepted_then_failing, w_cm_down)"""
    rows = s["files"][_file_of(s, s["chroms"][0])][1]
    if len(rows) < 3:
        return None
    i = int(rng.integers(1, len(rows) - 1))
    rows[i][2] = f"{max(float(r[2]) for r in rows) + float(rng.choice([0.5, 50, 300])):.6f}"
    return "u:map-cM-decreasing"


def u_region_two_chroms(s, rng):
    """a region together with more than one chromosome (the CLI cannot produce it): accepted; _prepare_coords keeps one
    chromosome's end coordinate and _simulate then indexes past it"""
    if s["region"] is not None or len(s["chroms"]) < 2:
        return None
    bps = [int(r[3]) for r in s["files"][_file_of(s, s["chroms"][0])][1]]
    s["region"] = [bps[0], bps[-1] + int(rng.integers(0, 1000))]
    return "u:region-with-several-chromosomes"


def u_bp_sentinel(s, rng):
    """a marker at or beyond np.iinfo(np.int32).max, the value the code uses as 'end of chromosome'"""
    rows = s["files"][_file_of(s, s["chroms"][0])][1]
    base = int(rng.choice([2**31 - 1, 2**31, 2**32 - 1, 2**32, 2**63]))
    where = str(rng.choice(["last", "middle"])) if len(rows) > 2 else "last"
    if where == "last":
        rows[-1][3] = str(base)
    else:
        j = int(rng.integers(1, len(rows) - 1))
        for k in range(j, len(rows)):
            rows[k][3] = str(base + 10 * (k - j))
    return f"u:map-bp-at-or-beyond-int32-max@{where}"


UNDOC = [u_blank_gen, u_frac_token, u_map_token, u_empty_map, u_mapdir, u_ref, u_sinfo_short, u_unsorted_chroms,
         u_frac_range, u_first_admixed, u_no_gens, u_empty_model, u_surplus_map, u_dup_chrom,
         u_cm_decreasing, u_region_two_chroms, u_bp_sentinel]


def clause_no(label):
    return label.split(":")[0]


def double_mutation(s, rng):
    """two documented requirements violated at once: the refusal has to name one of them (whichever the code meets first)"""
    for _ in range(8):
        a, b = (MUTATORS[int(j)] for j in rng.choice(len(MUTATORS), size=2, replace=False))
        t = copy.deepcopy(s)
        try:
            la = a(t, rng)
            lb = b(t, rng) if la is not None else None
        except Exception:  # noqa - the second mutator does not apply to what the first left
            continue
        if la is None or lb is None or clause_no(la) == clause_no(lb):
            continue
        s.clear()
        s.update(t)
        return f"2x:{clause_no(la)}+{clause_no(lb)}:{la.split(':', 1)[1]}+{lb.split(':', 1)[1]}"
    return None


WIDTH_COORDS = [2**31 - 2, 2**31 - 1, 2**31, 2**32 - 1, 2**32, 2**63 - 1, 2**63]


def width_valid(s, rng, samples_ok=True):
    """Valid configurations on the width boundaries of the quantities the code handles: region coordinates and the
    last map position next to int32 max (the chromosome-end sentinel), 2^32, 2^63; sample counts 127 | 128 (no
    fixed-width array holds a sample count on this path, and such a run writes 256 haplotypes: thorough tier only)."""
    kind = str(rng.choice(["region-end", "region-beyond-map", "last-marker", "samples", "region-end", "last-marker"]))
    if kind == "samples" and not samples_ok:
        kind = "region-beyond-map"
    c = s["chroms"][0]
    rows = s["files"][_file_of(s, c)][1]
    bps = [int(r[3]) for r in rows]
    if kind.startswith("region"):
        s["chroms"] = [c]
        big = int(rng.choice(WIDTH_COORDS))
        if kind == "region-end":
            s["region"] = [int(rng.choice(bps)) - int(rng.integers(0, 2)), big]
        else:
            s["region"] = [max(bps[-1] + 1, int(rng.choice(WIDTH_COORDS[:3]))), big]
            if s["region"][0] > s["region"][1]:
                s["region"][1] = s["region"][0]
        return f"valid:width-{kind}-{big}"
    if kind == "last-marker":
        if len(rows) > 2 and rng.random() < 0.5:
            rows[-2][3] = str(2**31 - 3)
        rows[-1][3] = str(2**31 - 2)
        if s["region"] is not None:
            s["region"] = [bps[0], int(rng.choice(WIDTH_COORDS))]
        return "valid:width-last-marker-2^31-2"
    n = int(rng.choice([127, 128]))
    s["htoks"][0] = str(n)
    s["gens"] = s["gens"][:2]
    for j, g in enumerate(s["gens"]):
        g["g"] = j + 1
    s["popsize"] = int(rng.choice([1, 10 * n - 1, 10 * n]))
    s["norepl"] = False
    return f"valid:width-samples-{n}"


INT_TOKENS = ["0", "1", "2", "3", "-1", "+1", "+2", "+0", "-0", "00", "01", "002", "1_0", "1__0", "_1", "1_", "1.0", "1.",
              "1e0", "1e1", "0x1", "0b1", "1,0", "1+", "+", "-", "++1", "+-1", "1-", "one", "1a", "a1", "2.5", "2_", "12"]
FLOAT_TOKENS = ["0", "1", "0.5", ".5", "5.", "+.5", "-.5", "1e0", "1E0", "1e-1", "1e+1", "5e-1", "5E-1", "1_0e-1", "0.5_0",
                "1_.5", "1._5", "._5", "1e_1", "1e1_0", "1e", "e1", ".", "+", "-", "1.2.3", "1e1.5", "0x1", "1d0", "1f",
                "--1", "+-1", "0.1e1", "00.5", "1e-400", "1e400", "10e-1", "0.25", "0.75", "1/2", "0,5", "1e+", "1e-", ".e1",
                "0.e0", "+1.", "-0.0", "0_0.5", "05e-1"]


def token_cases(rng, positions=None):
    """one token replaced by a member of a small lexical zoo: exercises the models of int(), float(),
    numpy's str -> float32 conversion against Python on every position where the code parses a number"""
    out = []
    for pos in positions or ["nsamples", "generation", "fraction", "map-chrom", "map-cm", "map-bp"]:
        toks = FLOAT_TOKENS if pos in ("fraction", "map-cm") else INT_TOKENS + (["X", "x", "23"] if pos == "map-chrom" else [])
        for t in toks:
            s = structured(rng)
            s["only_bp"] = True
            if pos == "nsamples":
                s["htoks"][0] = t
            elif pos == "generation":
                renumber_more_lines(s, rng)
                j, _ = pick_line(len(s["gens"]), rng)
                s["gens"][j]["g"] = t
            elif pos == "fraction":
                j = int(rng.integers(0, len(s["gens"])))
                k = int(rng.integers(0, len(s["gens"][j]["fr"])))
                s["gens"][j]["fr"][k] = t
            else:
                rows = s["files"][_file_of(s, s["chroms"][0])][1]
                i, _ = pick_line(len(rows), rng)
                rows[i][{"map-chrom": 0, "map-cm": 2, "map-bp": 3}[pos]] = t
            out.append(render(s, rng, f"u:token-{pos}"))
    return out


def gen_front(rng, n, tier="quick"):
    out = []
    k = 0
    wide_done = 0
    while len(out) < n:
        s = structured(rng)
        r = k % 20
        k += 1
        if r < 4:
            label = "valid"
        elif r == 4:
            # width boundaries; the (slow) 127 | 128 sample case at most once per run
            label = width_valid(s, rng, samples_ok=(tier == "thorough" and wide_done < 6))
            if label.startswith("valid:width-samples"):
                wide_done += 1
        elif r < 7:
            # option combinations: --popsize grid x --only_breakpoint x (region, reference type, no_replacement as drawn)
            s["popsize"], tag = pick_popsize(int(s["htoks"][0]), rng)
            s["only_bp"] = bool(rng.random() < 0.6)
            label = f"valid:popsize={tag}"
        elif r < 16:
            label = MUTATORS[int(rng.integers(0, len(MUTATORS)))](s, rng)
        elif r == 16:
            label = double_mutation(s, rng)
        else:
            label = UNDOC[int(rng.integers(0, len(UNDOC)))](s, rng)
        if label is None:
            continue
        out.append(render(s, rng, label))
    toks = token_cases(rng)
    pick = rng.choice(len(toks), size=min(len(toks), max(10, n // 12)), replace=False)
    return out + [toks[int(j)] for j in sorted(pick)]


# ---------------------------------------------------------------------------
# running the implementation


def write_lines(path, lines, eol):
    with open(path, "w", newline="") as f:
        f.write("".join(l + eol for l in lines))


def materialise(inp, d):
    """Write the files of inp under directory d; returns (model, mapdir, ref, sinfo) relative paths."""
    lines = ([] if inp["header"] is None else [inp["header"]]) + list(inp["gens"])
    write_lines(os.path.join(d, "model.dat"), lines, inp["eol"])
    if inp["mkdir"]:
        os.makedirs(os.path.join(d, "maps" if inp["mapdir"] == "no_such_dir" else inp["mapdir"]), exist_ok=True)
        md = os.path.join(d, "maps" if inp["mapdir"] == "no_such_dir" else inp["mapdir"])
        for nm, rows in inp["files"]:
            write_lines(os.path.join(md, nm), rows, inp["eol"])
    write_lines(os.path.join(d, "sinfo.tsv"), inp["sinfo"], inp["eol"])
    kind = inp["ref"]["kind"]
    if kind == "vcf":
        import pysam

        p = os.path.join(d, "ref.vcf")
        with open(p, "w") as f:
            f.write("##fileformat=VCFv4.2\n##contig=<ID=1>\n##FORMAT=<ID=GT,Number=1,Type=String,Description=\"GT\">\n")
            f.write("#CHROM\tPOS\tID\tREF\tALT\tQUAL\tFILTER\tINFO\tFORMAT\t" + "\t".join(inp["ref"]["samples"]) + "\n")
            f.write("1\t10\tv1\tA\tC\t.\t.\t.\tGT\t" + "\t".join("0|1" for _ in inp["ref"]["samples"]) + "\n")
        pysam.tabix_compress(p, p + ".gz", force=True)
        pysam.tabix_index(p + ".gz", preset="vcf", force=True)
        ref = "ref.vcf.gz"
    elif kind == "pgen":
        with open(os.path.join(d, "ref.psam"), "w") as f:
            f.write("#IID\n" + "".join(x + "\n" for x in inp["ref"]["samples"]))
        open(os.path.join(d, "ref.pgen"), "wb").close()
        ref = "ref.pgen"
    elif kind == "missing-pgen":
        ref = "absent.pgen"
    else:
        ref = "absent.vcf.gz"
    return "model.dat", inp["mapdir"], ref, "sinfo.tsv"


def count_headers(path):
    n = 0
    with open(path) as f:
        for ln in f:
            if ln.startswith("Sample_"):
                n += 1
    return n


def parse_bp(path, pops):
    """Independent parser of the .bp format -> [[sample_no, strand, [[pop_index, chrom, end_bp]]]].
    pop_index = position of the label among the header's population columns (0 = the admixed column), -1 = none of
    them; chromosome X = 23, an unreadable chromosome = 0 (never requested). Raises ValueError on any other shape."""
    rows = []
    with open(path) as f:
        for line in f:
            parts = line.rstrip("\n").split("\t")
            if len(parts) == 1:
                m = re.fullmatch(r"Sample_(\d+)_(\d+)", parts[0])
                if not m:
                    raise ValueError(f"bad header line {line!r}")
                rows.append([int(m.group(1)), int(m.group(2)), []])
            elif len(parts) == 4:
                if not rows:
                    raise ValueError("block before the first header")
                chrom = 23 if parts[1] == "X" else int(parts[1]) if re.fullmatch(r"\d+", parts[1]) else 0
                float(parts[3])
                rows[-1][2].append([pops.index(parts[0]) if parts[0] in pops else -1, chrom, int(parts[2])])
            else:
                raise ValueError(f"bad line {line!r}")
    return rows


class SoftTimeout(BaseException):
    """not an Exception: `except Exception` in the code under test must not swallow it"""


def sim_timeout(popsize):
    return 6.0 if popsize <= 1000 else 30.0


class time_limit:
    """'simulated to completion': the accepted run has to return within the limit (SIGALRM in the worker process,
    so the acceptance observed before stays attributed to this case; core's per-case timeout is the backstop)."""

    def __init__(self, seconds):
        self.seconds = seconds

    def __enter__(self):
        import signal

        def fire(signum, frame):
            raise SoftTimeout()

        self.old = signal.signal(signal.SIGALRM, fire)
        signal.setitimer(signal.ITIMER_REAL, self.seconds)

    def __exit__(self, *a):
        import signal

        signal.setitimer(signal.ITIMER_REAL, 0)
        signal.signal(signal.SIGALRM, self.old)
        return False


def header_n(inp):
    toks = (inp.get("header") or "").split()
    try:
        return int(toks[0])
    except Exception:  # noqa
        return None


def popsize_class(popsize, n):
    if n is None or n < 1:
        return "popsize-?"
    return ("popsize<=0" if popsize <= 0 else "popsize<2n" if popsize < 2 * n else "2n<=popsize<10n" if popsize < 10 * n
            else "popsize=10n" if popsize == 10 * n else "popsize>10n")


def header_pops(header):
    return (header or "").split()[1:]


def read_bp(path, header):
    """{"completed": headers, "rows": ...} or a failed-simulation record when the file is missing / unparsable"""
    if not os.path.exists(path):
        return {"failed": 15, "cls": "no .bp file", "stage": "output"}
    try:
        return {"completed": count_headers(path), "rows": parse_bp(path, header_pops(header))}
    except Exception as e:  # noqa
        return {"failed": err_kind(e), "cls": "unparsable .bp file", "stage": "output", "msg": str(e)[:160]}


def run_pipeline(inp, d):
    """validate_params -> simulate_gt -> write_breakpoints with cwd = d (relative paths keep the
    model's view of the glob listing independent of the temporary directory's name)."""
    import glob

    import haptools.sim_genotype as sg
    from haptools.logging import getLogger

    log = getLogger("hv", "CRITICAL")
    model, mapdir, ref, sinfo = materialise(inp, d)
    region = None
    if inp["region"] is not None:
        region = {"chr": inp["chroms"][0] if inp["chroms"] else "1", "start": inp["region"][0], "end": inp["region"][1]}
    obs = {"listing": sorted_listing(glob.glob(f"{mapdir}/*.map")), "isdir": os.path.isdir(mapdir), "sim": None}
    started = [False]
    sizes = []
    real = sg._simulate

    def wrapped(*a, **k):
        started[0] = True
        sizes.append(int(a[0] if a else k["popsize"]))          # the effective population size of this generation
        return real(*a, **k)

    try:
        ps = sg.validate_params(model, mapdir, list(inp["chroms"]), inp["popsize"], ref, sinfo, inp["norepl"],
                                region, inp["only_bp"])
    except Exception as e:  # noqa
        obs["front"] = classify_exc(e)
        obs["stage"] = "validate_params"
        return obs
    limit = sim_timeout(max(int(ps), int(inp["popsize"])) if isinstance(ps, int) else 0)
    sg._simulate = wrapped
    try:
        try:
            with time_limit(limit):
                ret = sg.simulate_gt(model, mapdir, list(inp["chroms"]), region, ps, log, inp["seed"])
        except SoftTimeout:
            if not started[0]:
                return {"__timeout__": True}
            obs["front"] = {"accept": int(ps)}
            obs["sim"] = {"failed": 12, "cls": "Timeout", "stage": "simulate_gt", "msg": f"no result after {limit} s"}
            return obs
        except Exception as e:  # noqa
            if not started[0]:
                obs["front"] = classify_exc(e)
                obs["stage"] = "simulate_gt before the first generation"
                return obs
            obs["front"] = {"accept": int(ps)}
            obs["sim"] = dict(classify_exc(e), failed=err_kind(e), stage="simulate_gt")
            return obs
    finally:
        sg._simulate = real
    obs["front"] = {"accept": int(ps)}
    try:
        with time_limit(limit):
            sg.write_breakpoints(ret[0], ret[1], ret[2], "out", log)
        obs["sim"] = read_bp("out.bp", inp["header"])
        obs["sim"]["eff"] = min(sizes) if sizes else int(ps)
    except SoftTimeout:
        obs["sim"] = {"failed": 12, "cls": "Timeout", "stage": "write_breakpoints", "msg": f"no result after {limit} s"}
    except Exception as e:  # noqa
        obs["sim"] = dict(classify_exc(e), failed=err_kind(e), stage="write_breakpoints")
    return obs


def sorted_listing(paths):
    # glob order is the directory order; it is an input of the model, recorded as observed
    return list(paths)


def in_tempdir(fn):
    d = tempfile.mkdtemp(prefix="hv_v20_")
    # the temporary directory's own name must not look like a chromosome to the map-file regex
    while re.search(r"(?<=chr)(X|\d+)", d):
        shutil.rmtree(d, ignore_errors=True)
        d = tempfile.mkdtemp(prefix="hv_v20_")
    cwd = os.getcwd()
    os.chdir(d)
    try:
        return fn(d)
    finally:
        os.chdir(cwd)
        shutil.rmtree(d, ignore_errors=True)


# ---------------------------------------------------------------------------
# encoding


def S(s):
    return L.chars(s)


def outcome_term(o):
    if o is None:
        return "(Crash 97)"
    if "accept" in o:
        return f"(Accept {L.z(o['accept'])})"
    if "reject" in o:
        return f"(Reject {L.z(o['reject'])})"
    return f"(Crash {L.z(o['crash'])})"


def sim_term(s):
    if s is None:
        return "NotRun"
    if "completed" in s:
        seg = lambda b: f"(mkseg {L.z(b[0])} {L.z(b[1])} {L.z(b[2])} 0)"
        row = lambda r: f"({L.z(r[0])}, {L.z(r[1])}, {L.lst(r[2], seg)})"
        return f"(Completed {L.z(s['eff'])} {L.lst(s['rows'], row)})"
    return f"(SimFailed {L.z(s['failed'])})"


def vin_term(inp, listing, isdir, chroms=None, region="same", only_bp=None):
    files = dict((nm, rows) for nm, rows in inp["files"])
    fl = []
    for p in listing:
        rows = files.get(os.path.basename(p), [])
        # the chromosome is looked for in the file's NAME (not in the directory part of the path)
        fl.append(f"({S(os.path.basename(p))}, {L.lst(rows, S)})")
    ref = inp["ref"]["samples"] if inp["ref"]["kind"] in ("vcf", "pgen") else None
    reg = inp["region"] if region == "same" else region
    return (
        f"(mkvin {S(inp['header'] or '')} {L.lst(inp['gens'], S)} {L.b(isdir)} "
        f"{L.lst(inp['chroms'] if chroms is None else chroms, S)} {L.lst(fl)} {L.z(inp['popsize'])} "
        f"{L.b(inp['only_bp'] if only_bp is None else only_bp)} {L.opt(ref, lambda r: L.lst(r, S))} "
        f"{L.lst(inp['sinfo'], S)} {L.b(inp['norepl'])} "
        f"{L.opt(reg, lambda r: f'({L.z(r[0])}, {L.z(r[1])})')})"
    )


def small_population(front, sim, n):
    """semantic tag for signatures: the effective population size fell below 10 x samples"""
    if n is None or n < 1:
        return ""
    vals = [front.get("accept")] + ([sim.get("eff")] if sim and "eff" in sim else [])
    return " with an effective population size below 10 x samples" if any(v is not None and v < 10 * n for v in vals) else ""


def bp_malformed(sim, chroms, n):
    """semantic tag for signatures (the verdict itself is C02's holds_bp evaluated in Coq): the written .bp does not
    hold 2n framed haplotypes each tiling the requested chromosomes up to the sentinel"""
    if not sim or "rows" not in sim or n is None:
        return ""
    rows = sim["rows"]
    want = [23 if c == "X" else int(c) if str(c).isdigit() else 0 for c in chroms]
    ok = len(rows) == 2 * n and all(r[0] == k // 2 + 1 and r[1] == k % 2 + 1 for k, r in enumerate(rows))
    for r in rows:
        seen, prev = [], {}
        for b in r[2]:
            if not seen or seen[-1] != b[1]:
                if seen and prev[seen[-1]] != 2**31 - 1:
                    ok = False
                seen.append(b[1])
                prev[b[1]] = -1
            if b[2] <= prev[b[1]] or b[0] <= 0:
                ok = False
            prev[b[1]] = b[2]
        if seen != want or (seen and prev[seen[-1]] != 2**31 - 1):
            ok = False
    return "" if ok else " but the written .bp is not a well-formed tiling of the requested chromosomes"


def label_text(label):
    """semantic description of a generator label (for signatures) and its leading clause number"""
    num = label.split(":")[0]
    if num == "2x":
        a, b = label.split(":")[1].split("+")
        return (f"violates requirements {a} ({CLAUSE_TEXT[int(a)]}) and {b} ({CLAUSE_TEXT[int(b)]})"), num
    if num.isdigit():
        return "violates requirement " + num + " (" + CLAUSE_TEXT[int(num)] + ")", num
    return ("valid" if num == "valid" else "undocumented malformation"), num


def py_classify(inp):
    """Python re-statement of the narrow documented violations (labels for evidence / signature only)."""
    return inp.get("label", "?")


class Front(Relation):
    name = "front"
    coq_module = "C20_Check"
    coq_check = "check_front"
    coq_case_type = "vcase"
    coq_model = "model_front"
    coq_imports = ["Tracts", "C02_Model", "C20_Model"]
    budget = {"quick": 1000, "thorough": 12000}
    timeout_per_case = 90
    max_cases_per_shard = 70
    max_chars_per_shard = 110_000
    anchors = [("haptools/sim_genotype.py", "validate_params"), ("haptools/sim_genotype.py", "_prepare_coords"),
               ("haptools/sim_genotype.py", "simulate_gt")]

    def generate(self, rng, n, tier):
        return gen_front(rng, n, tier)

    def exhaustive(self, tier):
        # every mutator x every line position on one small fixed configuration, both flag settings
        out = []
        rng = np.random.default_rng(20)
        for m in MUTATORS + UNDOC:
            for rep in range(6):
                s = structured(rng)
                label = m(s, rng)
                if label is not None:
                    out.append(render(s, rng, label))
        # option combinations on valid configurations: popsize grid x only_breakpoint x region x reference type
        for tag in POPSIZE_GRID:
            for only_bp in (True, False):
                for want_region in (True, False):
                    for kind in ("vcf", "pgen"):
                        for _ in range(40):
                            s = structured(rng)
                            if (s["region"] is not None) == want_region:
                                break
                        else:
                            continue
                        if tag == "default" and (kind == "pgen" or len(s["gens"]) > 2):
                            continue                              # a second per run: a few suffice
                        s["popsize"] = popsize_of(tag, int(s["htoks"][0]))
                        s["only_bp"] = only_bp
                        s["ref"]["kind"] = kind
                        out.append(render(s, rng, f"valid:popsize={tag}"))
        # width boundaries, incl. 127 | 128 samples
        for j in range(24):
            s = structured(rng)
            out.append(render(s, rng, width_valid(s, rng, samples_ok=(j < 6))))
        return out + token_cases(rng)

    def run_impl(self, inp):
        return in_tempdir(lambda d: run_pipeline(inp, d))

    def encode(self, inp, obs):
        if not isinstance(obs, dict) or "front" not in obs:
            k = obs.get("kind", 99) if isinstance(obs, dict) else 99
            if isinstance(obs, dict) and "__timeout__" in obs:
                k = 97
            listing = [f"{inp['mapdir']}/{nm}" for nm, _ in inp["files"] if nm.endswith(".map")]
            return f"(mkvc {vin_term(inp, listing, inp['mapdir'] != 'no_such_dir')} (Crash {L.z(k)}) NotRun)"
        return (f"(mkvc {vin_term(inp, obs['listing'], obs['isdir'])} {outcome_term(obs['front'])} "
                f"{sim_term(obs['sim'])})")

    def nontrivial(self, inp, obs):
        return not inp["label"].startswith("u:")

    def classes(self, inp, obs):
        lab = inp["label"]
        out = [":".join(lab.split(":")[:2]) if lab.startswith("2x:") else lab.split("@")[0],
               "only_bp" if inp["only_bp"] else "with-reference", "region" if inp["region"] else "no-region"]
        if lab.startswith("2x:"):
            out.append("two-requirements-violated")
        out.append(popsize_class(inp["popsize"], header_n(inp)) + ("+only_bp" if inp["only_bp"] else ""))
        if "@" in inp["label"] and not lab.startswith("2x:"):
            out.append("line@" + inp["label"].split("@")[1])
        if isinstance(obs, dict) and "front" in obs:
            f = obs["front"]
            out.append("accepted" if "accept" in f else f"reject-{f['reject']}" if "reject" in f else f"crash-{f['cls']}")
            if obs.get("sim") and "failed" in obs["sim"]:
                out.append("simulation-failed-" + obs["sim"]["cls"])
        return out

    def shrink(self, inp):
        if len(inp["gens"]) > 1:
            for j in range(len(inp["gens"])):
                yield dict(inp, gens=inp["gens"][:j] + inp["gens"][j + 1:])
        if len(inp["chroms"]) > 1 and inp["region"] is None:
            for j in range(len(inp["chroms"])):
                yield dict(inp, chroms=inp["chroms"][:j] + inp["chroms"][j + 1:])
        for j in range(len(inp["files"])):
            yield dict(inp, files=inp["files"][:j] + inp["files"][j + 1:])
        for j, (nm, rows) in enumerate(inp["files"]):
            if len(rows) > 2:
                for i in range(len(rows)):
                    yield dict(inp, files=inp["files"][:j] + [[nm, rows[:i] + rows[i + 1:]]] + inp["files"][j + 1:])
        if len(inp["sinfo"]) > 2:
            for j in range(len(inp["sinfo"])):
                yield dict(inp, sinfo=inp["sinfo"][:j] + inp["sinfo"][j + 1:])
        if not inp["only_bp"]:
            yield dict(inp, only_bp=True)
        if inp["norepl"]:
            yield dict(inp, norepl=False)
        if inp["popsize"] > 1:
            yield dict(inp, popsize=1)
        canon = lambda l: "\t".join(l.split())
        if any(canon(l) != l for l in inp["gens"]) or (inp["header"] and canon(inp["header"]) != inp["header"]):
            yield dict(inp, gens=[canon(l) for l in inp["gens"]], header=canon(inp["header"] or ""), eol="\n")

    def mutate(self, inp, rng):
        for _ in range(6):
            yield dict(inp, only_bp=not inp["only_bp"], seed=int(rng.integers(1, 2**31 - 1)))
        n = header_n(inp)
        if n is not None and 1 <= n <= 50:
            for tag in POPSIZE_GRID[:-1]:
                yield dict(inp, popsize=popsize_of(tag, n), only_bp=bool(rng.random() < 0.6))
        if inp["region"]:
            a, b = inp["region"]
            yield dict(inp, region=[b, a])
            yield dict(inp, region=[a, a])
            yield dict(inp, region=[a + 1, a])

    def signature(self, inp, obs):
        lab, num = label_text(inp["label"])
        f = obs.get("front") if isinstance(obs, dict) else None
        if f is None:
            what = "unobserved"
        elif "accept" in f:
            s = obs.get("sim") or {}
            what = "accepted" + (" and completed" if "completed" in s else f" then {s.get('stage')} raised {s.get('cls')}")
            what += small_population(f, s, header_n(inp)) + bp_malformed(s, inp["chroms"], header_n(inp))
        elif "reject" in f:
            what = f"refused with message class {f['reject']}"
        else:
            what = f"{obs.get('stage')} raised {f['cls']}"
        flag = " with --only_breakpoint" if (num == "12" and inp["only_bp"]) else ""
        return f"front input {lab}{flag}: {what}"


# ---------------------------------------------------------------------------
# CLI


def base_config():
    """One fixed Valid configuration for the CLI relation (chromosomes 1, 2 and X)."""
    maps = {
        "1": [["1", ".", "0.0", "100"], ["1", ".", "30.0", "2000"], ["1", ".", "90.0", "50000"], ["1", ".", "200.0", "900000"]],
        "2": [["2", ".", "0.0", "500"], ["2", ".", "150.0", "70000"]],
        "X": [["X", ".", "0.0", "10"], ["X", ".", "10.0", "3000"], ["X", ".", "250.0", "40000"]],
    }
    s = {
        "htoks": ["2", "Admixed", "CEU", "YRI"],
        "gens": [{"g": 1, "fr": [0, 2000, 8000]}, {"g": 3, "fr": [5000, 5000, 0]}],
        "mapdir": "maps",
        "files": [[f"g.chr{c}.map", rows] for c, rows in maps.items()],
        "chroms": ["1", "2", "X"],
        "popsize": 12,
        "only_bp": False,
        "ref": {"kind": "vcf", "samples": ["A1", "A2", "B1", "B2"]},
        "srows": [["A1", "CEU"], ["A2", "CEU"], ["B1", "YRI"], ["B2", "YRI"]],
        "norepl": False,
        "region": None,
        "seed": 7,
    }
    inp = render(s, np.random.default_rng(0), "cli-base")
    # canonical whitespace: the base is written literally into every shard's preamble
    inp["header"] = "\t".join(s["htoks"])
    inp["gens"] = ["1\t0\t0.2\t0.8", "3\t0.5\t0.5\t0"]
    inp["files"] = [[nm, ["\t".join(r) for r in rows]] for nm, rows in s["files"]]
    inp["sinfo"] = ["\t".join(r) for r in s["srows"]]
    inp["eol"] = "\n"
    return inp


BASE = base_config()
CLI_N = 2                              # samples of the base model


def gen_region(rng):
    r = rng.random()
    c = str(rng.choice(["1", "2", "X", "1", "1", "3", "chr1", "23"]))
    a = int(rng.choice([0, 1, 99, 100, 101, 1999, 2000, 2001, 50000, 899999, 900000, 10**7]))
    b = int(rng.choice([0, 1, 99, 100, 101, 1999, 2000, 2001, 50000, 899999, 900000, 10**7]))
    if r < 0.45:
        lo, hi = min(a, b), max(a, b)
        return f"{c}:{lo}-{hi}", "start<=end"
    if r < 0.75:
        lo, hi = min(a, b), max(a, b)
        if lo == hi:
            hi += 1
        return f"{c}:{hi}-{lo}", "start>end"
    bad = ["1", "1:", "1:100", "1:100-", "1:-100-200", "1:a-b", "1:1e3-2e3", "1-100-200", "1:100:200", ":100-200",
           "1:100-200-300", "1: 100 - 200", "1:1_000-2_000", "1:+5-+9", "1:100-2x", "X:10-3000", "1:2000-100-50",
           "", "1:1.5-2", "1 :1-2"]
    return str(rng.choice(bad)), "odd"


def gen_chroms(rng):
    good = ["1", "2", "X", "1,2", "1,X", "2,X", "1,2,X"]
    odd = ["", "1,", ",1", "1,,2", "1, 2", "2,1", "1;2", "1,2,3", "chr1", "X,1", "1,1", "x", "1,2,X,"]
    if rng.random() < 0.6:
        return str(rng.choice(good)), "sorted-subset"
    return str(rng.choice(odd)), "odd"


CLI_DEFAULT_POPSIZE = 10000          # click default of --popsize


def run_cli(inp, d):
    import glob

    import haptools.sim_genotype as sg
    from click.testing import CliRunner
    from haptools.__main__ import main

    base = BASE
    model, mapdir, ref, sinfo = materialise(base, d)
    obs = {"listing": glob.glob(f"{mapdir}/*.map"), "isdir": True, "sim": None, "args": None}
    started = [False]
    sizes = []
    real_sim, real_val, real_out = sg._simulate, sg.validate_params, sg.output_vcf
    given = inp.get("popsize", base["popsize"])                   # None = option absent (click's default)

    def sim(*a, **k):
        started[0] = True
        sizes.append(int(a[0] if a else k["popsize"]))
        return real_sim(*a, **k)

    def val(model, mapdir, chroms, popsize, invcf, sample_info, no_replacement, region=None, only_bp=False):
        obs["args"] = {"chroms": list(chroms),
                       "region": None if not region else [str(region["chr"]), int(region["start"]), int(region["end"])],
                       "only_bp": bool(only_bp), "mapdir": mapdir,
                       "popsize": int(popsize) if isinstance(popsize, int) else -1}
        ps = real_val(model, mapdir, chroms, popsize, invcf, sample_info, no_replacement, region, only_bp)
        obs["accepted"] = int(ps)
        return ps

    def out_vcf(*a, **k):
        obs["output_vcf_called"] = True

    args = ["simgenotype", "--model", model, "--mapdir", mapdir + ("/" if inp.get("slash") else ""),
            "--out", "o.vcf.gz", "--ref_vcf", ref, "--sample_info", sinfo,
            "--seed", str(inp["seed"]), "--verbosity", "CRITICAL"]
    if given is not None:
        args += ["--popsize", str(given)]
    if inp["chroms"] is not None:
        args += ["--chroms", inp["chroms"]]
    if inp["region"] is not None:
        args += ["--region", inp["region"]]
    if inp["only_bp"]:
        args += ["--only_breakpoint"]
    limit = sim_timeout(CLI_DEFAULT_POPSIZE if given is None else given)
    sg._simulate, sg.validate_params, sg.output_vcf = sim, val, out_vcf
    try:
        with time_limit(limit):
            res = CliRunner().invoke(main, args, catch_exceptions=True)
    except SoftTimeout:
        if not started[0] or "accepted" not in obs:
            return {"__timeout__": True}
        obs["front"] = {"accept": obs["accepted"]}
        obs["sim"] = {"failed": 12, "cls": "Timeout", "stage": "after the first generation", "msg": f"no result after {limit} s"}
        return obs
    finally:
        sg._simulate, sg.validate_params, sg.output_vcf = real_sim, real_val, real_out
    obs["exit"] = res.exit_code
    e = res.exception
    if e is not None and not (isinstance(e, SystemExit) and res.exit_code == 0):
        if isinstance(e, SystemExit):
            obs["front"] = {"crash": err_kind("UsageError"), "cls": "UsageError", "msg": (res.output or "")[-160:]}
            obs["stage"] = "click"
        elif started[0]:
            obs["front"] = {"accept": obs.get("accepted", -1)}
            obs["sim"] = dict(classify_exc(e), failed=err_kind(e), stage="after the first generation")
        else:
            obs["front"] = classify_exc(e)
            obs["stage"] = "before the first generation"
        return obs
    obs["front"] = {"accept": obs.get("accepted", -1)}
    obs["sim"] = read_bp("o.bp", base["header"])
    obs["sim"]["eff"] = min(sizes) if sizes else obs.get("accepted", -1)
    return obs


class Cli(Relation):
    name = "cli"
    coq_module = "C20_Check"
    coq_check = "check_cli"
    coq_case_type = "clicase"
    coq_model = "model_cli"
    coq_imports = ["Tracts", "C02_Model", "C20_Model"]
    timeout_per_case = 90
    budget = {"quick": 400, "thorough": 4000}
    max_cases_per_shard = 120
    anchors = [("haptools/__main__.py", "simgenotype"), ("haptools/sim_genotype.py", "validate_params"),
               ("haptools/sim_genotype.py", "_prepare_coords")]

    def generate(self, rng, n, tier):
        out = []
        for _ in range(n):
            reg, rk = (None, "none")
            if rng.random() < 0.65:
                reg, rk = gen_region(rng)
            ch, ck = (None, "default")
            if rng.random() < (0.3 if reg is not None else 0.9):
                ch, ck = gen_chroms(rng)
            case = {"chroms": ch, "region": reg, "only_bp": bool(rng.random() < 0.5), "slash": bool(rng.random() < 0.3),
                    "seed": int(rng.integers(0, 1000)), "label": f"region-{rk} chroms-{ck}"}
            # --popsize: the base's 12 (n = 2: 2n < 12 < 10n), the boundary grid, or absent (default)
            r = rng.random()
            if r < 0.4:
                case["popsize"], tag = BASE["popsize"], "12"
            elif r < 0.95:
                tag = str(rng.choice(POPSIZE_GRID[:-1]))
                case["popsize"] = popsize_of(tag, CLI_N)
            else:
                case["popsize"], tag = None, "default"
            case["label"] += f" popsize-{tag}"
            out.append(case)
        return out

    def exhaustive(self, tier):
        # option combinations: popsize grid x --only_breakpoint x (--region / --chroms)
        out = []
        for tag in POPSIZE_GRID:
            for only_bp in (True, False):
                for ch, reg, lab in ((None, "1:100-2000", "region-start<=end chroms-default"), ("1,2,X", None, "region-none chroms-sorted-subset"),
                                     ("2", None, "region-none chroms-sorted-subset")):
                    if tag == "default" and ch == "1,2,X":
                        continue
                    out.append({"chroms": ch, "region": reg, "only_bp": only_bp, "slash": False, "seed": 7,
                                "popsize": None if tag == "default" else popsize_of(tag, CLI_N),
                                "label": f"{lab} popsize-{tag}"})
        return out

    def preamble(self):
        listing = [f"maps/{nm}" for nm, _ in BASE["files"]]
        return f"Definition base : vin := {vin_term(BASE, listing, True)}."

    def run_impl(self, inp):
        return in_tempdir(lambda d: run_cli(inp, d))

    def encode(self, inp, obs):
        given = inp.get("popsize", BASE["popsize"])
        given = CLI_DEFAULT_POPSIZE if given is None else given
        head = f"(mkcli base {L.opt(inp['chroms'], S)} {L.opt(inp['region'], S)} {L.b(inp['only_bp'])} {L.z(given)}"
        if not isinstance(obs, dict) or "front" not in obs:
            return f"{head} None {L.z(given)} (Crash 97) NotRun)"
        a = obs["args"]
        at = "None"
        recv = given
        if a is not None:
            reg = L.opt(a["region"], lambda r: f"({S(r[0])}, {L.z(r[1])}, {L.z(r[2])})")
            at = f"(Some (mkargs {L.lst(a['chroms'], S)} {reg}))"
            recv = a.get("popsize", given)
        # the base's glob order as observed must be the preamble's (all three files match by name only)
        return f"{head} {at} {L.z(recv)} {outcome_term(obs['front'])} {sim_term(obs['sim'])})"

    def nontrivial(self, inp, obs):
        return isinstance(obs, dict) and obs.get("args") is not None

    def classes(self, inp, obs):
        out = inp["label"].split() + ["only_bp" if inp["only_bp"] else "with-reference"]
        given = inp.get("popsize", BASE["popsize"])
        out.append(popsize_class(CLI_DEFAULT_POPSIZE if given is None else given, CLI_N) + ("+only_bp" if inp["only_bp"] else ""))
        if isinstance(obs, dict) and "front" in obs:
            f = obs["front"]
            out.append("accepted" if "accept" in f else f"reject-{f['reject']}" if "reject" in f else f"crash-{f['cls']}")
        return out

    def shrink(self, inp):
        if inp["chroms"] is not None:
            yield dict(inp, chroms=None)
        if inp["slash"]:
            yield dict(inp, slash=False)
        if inp.get("popsize", 12) is None or inp.get("popsize", 12) > 1:
            yield dict(inp, popsize=1)
        yield dict(inp, seed=1)

    def mutate(self, inp, rng):
        yield dict(inp, only_bp=not inp["only_bp"])
        for tag in POPSIZE_GRID[:-1]:
            yield dict(inp, popsize=popsize_of(tag, CLI_N), only_bp=bool(rng.random() < 0.5))
        for _ in range(5):
            reg, rk = gen_region(rng)
            yield dict(inp, region=reg, label=f"region-{rk} chroms-x")

    def signature(self, inp, obs):
        f = obs.get("front") if isinstance(obs, dict) else None
        what = "unobserved" if f is None else "accepted" if "accept" in f else \
            f"refused with message class {f['reject']}" if "reject" in f else f"raised {f['cls']}"
        if f is not None and "accept" in f:
            s = obs.get("sim") or {}
            what += ("" if "completed" in s else f" then {s.get('stage')} raised {s.get('cls')}") + small_population(f, s, CLI_N)
            if obs.get("args"):
                what += bp_malformed(s, obs["args"]["chroms"], CLI_N)
        rk = inp["label"].split()[0]
        flag = " with --only_breakpoint" if (rk == "region-start>end" and inp["only_bp"]) else ""
        return f"cli {rk}{flag}: {what}"


# ---------------------------------------------------------------------------
# decision only: quantities too large to simulate


HUGE = [2**31 - 1, 2**31, 2**32 - 1, 2**32, 2**63 - 1, 2**63, 2**64, 10**30]
HUGE_TOKENS = [str(x) for x in HUGE] + ["+2147483648", "00000000000000000002147483648", "2_147_483_648", "1_000_000_000_000_000_000_000",
                                        "0000000000000000000000003", "4294967296.0", "1e10", "2147483648 "]


def gen_decision(rng, n):
    """Valid configurations (and documented violations) whose sample count / population size / generation number /
    region is around 2^31, 2^32, 2^63, 10^30: only validate_params and _prepare_coords are run on them."""
    out = []
    while len(out) < n:
        s = structured(rng)
        kind = str(rng.choice(["samples", "popsize", "samples+popsize", "generation", "region", "region-start>end",
                               "popsize-negative", "samples-negative", "norepl", "map-bp", "map-chrom"]))
        big = int(rng.choice(HUGE))
        if kind in ("samples", "samples+popsize"):
            s["htoks"][0] = str(rng.choice(HUGE_TOKENS))
            s["norepl"] = False
            if kind == "samples+popsize":
                s["popsize"] = int(rng.choice(HUGE)) + int(rng.integers(-1, 2))
            label = "valid:huge-" + kind if s["htoks"][0].strip().replace("_", "").lstrip("+").isdigit() else "1:samples-non-integer"
        elif kind == "popsize":
            s["popsize"] = big + int(rng.integers(-1, 2))
            label = "valid:huge-popsize"
        elif kind == "generation":
            tok = str(rng.choice(HUGE_TOKENS[:11]))
            s["gens"][-1]["g"] = tok
            label = "valid:huge-generation"
        elif kind == "region":
            c = s["chroms"][0]
            bps = [int(r[3]) for r in s["files"][_file_of(s, c)][1]]
            s["chroms"] = [c]
            a = int(rng.choice([bps[0], bps[-1], 2**31 - 2, 2**31 - 1, 2**31, 2**32]))
            s["region"] = [a, max(a, big) + int(rng.integers(0, 2))]
            label = "valid:huge-region"
        elif kind == "region-start>end":
            c = s["chroms"][0]
            s["chroms"] = [c]
            s["region"] = [big + 1, int(rng.choice([0, 1, big, big - 1, 2**31 - 1]))]
            if s["region"][0] <= s["region"][1]:
                s["region"][1] = s["region"][0] - 1
            label = "12:region-start-gt-end-huge"
        elif kind == "popsize-negative":
            s["popsize"] = -big - int(rng.integers(0, 2))
            label = "9:popsize-non-positive-huge"
        elif kind == "samples-negative":
            s["htoks"][0] = "-" + str(big)
            label = "1:samples-lt-1-huge"
        elif kind == "norepl":
            s["only_bp"], s["norepl"] = False, True
            s["htoks"][0] = str(big)
            label = "11:too-few-samples-without-replacement-huge"
        elif kind == "map-bp":
            rows = s["files"][_file_of(s, s["chroms"][0])][1]
            rows[-1][3] = str(big)
            label = "u:map-bp-at-or-beyond-int32-max@last"
        else:
            rows = s["files"][_file_of(s, s["chroms"][0])][1]
            rows[int(rng.integers(0, len(rows)))][0] = str(big)
            label = "u:map-chromosome-column-huge"
        out.append(render(s, rng, label))
    return out


def run_decision(inp, d):
    """validate_params, then _prepare_coords exactly as simulate_gt calls it before the first generation"""
    import glob

    import haptools.sim_genotype as sg

    model, mapdir, ref, sinfo = materialise(inp, d)
    region = None
    if inp["region"] is not None:
        region = {"chr": inp["chroms"][0] if inp["chroms"] else "1", "start": inp["region"][0], "end": inp["region"][1]}
    obs = {"listing": sorted_listing(glob.glob(f"{mapdir}/*.map")), "isdir": os.path.isdir(mapdir)}
    try:
        ps = sg.validate_params(model, mapdir, list(inp["chroms"]), inp["popsize"], ref, sinfo, inp["norepl"],
                                region, inp["only_bp"])
    except Exception as e:  # noqa
        obs["front"] = classify_exc(e)
        obs["stage"] = "validate_params"
        return obs
    try:
        sg._prepare_coords(mapdir, list(inp["chroms"]), region)
    except Exception as e:  # noqa
        obs["front"] = classify_exc(e)
        obs["stage"] = "_prepare_coords"
        return obs
    obs["front"] = {"accept": int(ps)}
    return obs


class Decision(Relation):
    name = "decision"
    coq_module = "C20_Check"
    coq_check = "check_decision"
    coq_case_type = "dcase"
    coq_model = "model_decision"
    coq_imports = ["Tracts", "C02_Model", "C20_Model"]
    budget = {"quick": 100, "thorough": 2500}
    timeout_per_case = 60
    max_cases_per_shard = 70
    max_chars_per_shard = 110_000
    anchors = [("haptools/sim_genotype.py", "validate_params"), ("haptools/sim_genotype.py", "_prepare_coords")]

    def generate(self, rng, n, tier):
        return gen_decision(rng, n)

    def exhaustive(self, tier):
        return gen_decision(np.random.default_rng(2020), 160 if tier == "quick" else 600)

    def run_impl(self, inp):
        return in_tempdir(lambda d: run_decision(inp, d))

    def encode(self, inp, obs):
        if not isinstance(obs, dict) or "front" not in obs:
            listing = [f"{inp['mapdir']}/{nm}" for nm, _ in inp["files"] if nm.endswith(".map")]
            return f"(mkdc {vin_term(inp, listing, inp['mapdir'] != 'no_such_dir')} (Crash 97))"
        return f"(mkdc {vin_term(inp, obs['listing'], obs['isdir'])} {outcome_term(obs['front'])})"

    def nontrivial(self, inp, obs):
        return not inp["label"].startswith("u:")

    def classes(self, inp, obs):
        out = [inp["label"].split("@")[0], "only_bp" if inp["only_bp"] else "with-reference"]
        if isinstance(obs, dict) and "front" in obs:
            f = obs["front"]
            out.append("accepted" if "accept" in f else f"reject-{f['reject']}" if "reject" in f else f"crash-{f['cls']}")
        return out

    def shrink(self, inp):
        yield from Front.shrink(self, inp)

    def mutate(self, inp, rng):
        yield dict(inp, only_bp=not inp["only_bp"])
        for x in HUGE[:6]:
            yield dict(inp, popsize=int(x))
            yield dict(inp, popsize=-int(x))

    def signature(self, inp, obs):
        lab, num = label_text(inp["label"])
        f = obs.get("front") if isinstance(obs, dict) else None
        what = "unobserved" if f is None else f"accepted with population size {f['accept']}" if "accept" in f else \
            f"refused with message class {f['reject']}" if "reject" in f else f"{obs.get('stage')} raised {f['cls']}"
        return f"decision input {lab}: {what}"


RELATIONS = [Front(), Cli(), Decision()]

LEVEL_TEXT = (
    "Coq theorems over all inputs (any file contents, any whitespace, any listing of the map directory) about a Gallina "
    "model of validate_params + _prepare_coords + the CLI's region/chroms parser: the model accepts exactly the inputs "
    "satisfying the documented requirements (WellFormed, one conjunct per clause), every refusal names a requirement "
    "that is really violated, the population size validate_params returns is max(--popsize, 10 * samples) for both values "
    "of --only_breakpoint, the region test does not depend on --only_breakpoint; the checker's demand on the written "
    "breakpoint file (C02's holds_bp) is proved to mean 2n framed haplotypes each tiling every requested chromosome up to "
    "the sentinel with positive-fraction source labels. 'Accepted and then simulated to completion' is a theorem about the "
    "composed model simgenotype = front o simulate_gt's generations (C01/C02 models) o write_breakpoints built from the same "
    "input record: for every Valid input and every stream of draws meeting numpy's contracts the run returns rows that pass "
    "that same file checker (C20_accepted_completes); C20's and C02's models of _prepare_coords agree on Valid inputs; the "
    "events any mask selects on a Valid map are ordered as C02's tiling theorem needs. The model is tied to /repo on every run by running validate_params -> simulate_gt -> "
    "write_breakpoints and the CLI on generated valid / singly-malformed configurations and evaluating agreement and the "
    "property's checker inside Coq."
)
LEVEL_NOTE = (
    "'Accepted inputs simulate to completion' is observed on every accepted generated configuration here (return within a "
    "time limit, population size received by every _simulate call, C02's file checker on the written .bp) and proved "
    "for the composed model under numpy's contracts on the draws (choice(p) returns an index of positive probability, "
    "randint(popsize) < popsize, one randint(2) per chromosome; numpy's own argument checks are modelled); the draws of "
    "C20's runs are not recorded (C01/C02 do that). float32 arithmetic "
    "of the fraction sum is abstracted to exact rationals (valid under the property's 'clear margin'). Python's "
    "int/float/split/regex are modelled for ASCII input."
)
TECHNIQUE = "Coq proof (reflection of a decision procedure against a declarative specification) + vm_compute-evaluated correspondence"
