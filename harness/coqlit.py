"""Python value -> Gallina literal. All integers are Z (scope Z_scope is open in shards)."""
from fractions import Fraction


def z(x):
    x = int(x)
    return f"({x})" if x < 0 else str(x)


def nat(x):
    x = int(x)
    assert 0 <= x < 5000, "nat literals must stay small"
    return f"{x}%nat"


def b(x):
    return "true" if x else "false"


def lst(items, f=None):
    f = f or (lambda t: t)
    return "[" + "; ".join(f(i) for i in items) + "]"


def zl(items):
    return lst(items, z)


def bl(items):
    return lst(items, b)


def opt(x, f=None):
    f = f or (lambda t: t)
    return "None" if x is None else f"(Some {f(x)})"


def tup(*parts):
    return "(" + ", ".join(parts) + ")"


def chars(s):
    """string -> list Z of code points"""
    return zl([ord(c) for c in s])


def q(x):
    """exact rational literal (Qmake num den) for a float / Fraction / int"""
    fr = Fraction(x)
    return f"(Qmake {z(fr.numerator)} {fr.denominator}%positive)"


def res(x, f=None):
    """x is {'ok': v} or {'err': kind}"""
    f = f or (lambda t: t)
    if "err" in x:
        return f"(Err {z(x['err'])})"
    return f"(Ok {f(x['ok'])})"


def hexfloat(x):
    """PrimFloat literal, bit exact"""
    import math

    x = float(x)
    if math.isnan(x):
        return "PrimFloat.nan"
    if math.isinf(x):
        return "PrimFloat.infinity" if x > 0 else "PrimFloat.neg_infinity"
    h = x.hex()
    if h.startswith("-"):
        return f"(-{h[1:]})%float"
    return f"({h})%float"


class Interner:
    """Strings / floats that are only compared for equality become small integers."""

    def __init__(self):
        self.tab = {}

    def __call__(self, v):
        if isinstance(v, float):
            v = ("f", v.hex())
        return self.tab.setdefault(v, len(self.tab))
