"""Shared machinery of the correspondence checks.

A property module (harness/cXX.py) declares RELATIONS: each Relation generates
inputs, runs the implementation from $HAPTOOLS_REPO on them, encodes input and
observed output as a Gallina term of the relation's Coq case type, and names
the Coq function `check : case -> bool * bool` = (agree, holds) defined in
coq/theories/CXX_Check.v.  This file drives: build gate, Print Assumptions
capture, isolated implementation runs, shard generation, parallel coqc,
verdicts (DESIGN.md section 4), shrinking, replay files, known findings and
the evidence file.
"""
import hashlib
import json
import multiprocessing
import os
import re
import shutil
import subprocess
import sys
import tempfile
import time
import traceback

VERIF = os.path.dirname(os.path.dirname(os.path.abspath(__file__)))
REPO = os.environ.get("HAPTOOLS_REPO", "/repo")
COQDIR = os.path.join(VERIF, "coq")
THEORIES = os.path.join(COQDIR, "theories")
def _default_nproc():
    """14 workers on an idle machine; fewer when the machine is already busy (other checks running),
    so that concurrent runs do not push each other into per-case timeouts."""
    try:
        busy = os.getloadavg()[0]
    except OSError:
        busy = 0.0
    cores = os.cpu_count() or 16
    return int(max(3, min(14, cores - busy)))


NPROC = int(os.environ.get("VERIF_NPROC") or _default_nproc())
_MP = multiprocessing.get_context("fork")

# exception class name -> small enum shared with the Coq models (Err k)
ERR_KINDS = {
    "ValueError": 1,
    "IndexError": 2,
    "KeyError": 3,
    "TypeError": 4,
    "AttributeError": 5,
    "UnboundLocalError": 6,
    "OverflowError": 7,
    "AssertionError": 8,
    "Exception": 9,
    "SystemExit": 10,
    "Crash": 11,
    "Timeout": 12,
    "ZeroDivisionError": 13,
    "StopIteration": 14,
    "OSError": 15,
    "FileNotFoundError": 15,
    "UsageError": 16,
    "RuntimeError": 17,
    "NameError": 6,
    "Other": 99,
}


def err_kind(exc):
    """Map an exception instance (or class name) to the shared enum."""
    if isinstance(exc, str):
        return ERR_KINDS.get(exc, ERR_KINDS["Other"])
    for cls in type(exc).__mro__:
        if cls.__name__ in ERR_KINDS and cls.__name__ != "Exception":
            return ERR_KINDS[cls.__name__]
    if isinstance(exc, SystemExit):
        return ERR_KINDS["SystemExit"]
    if isinstance(exc, Exception):
        return ERR_KINDS["Exception"]
    return ERR_KINDS["Other"]


class Relation:
    """One correspondence relation between a Coq model and implementation code."""

    name = "rel"
    coq_module = None  # e.g. "C01_Check"
    coq_check = None  # e.g. "check_kernel" : case -> bool * bool
    coq_case_type = None  # e.g. "kcase"
    coq_model = None  # optional: function case -> printable model output
    coq_imports = []  # further HV modules the case literals need
    coq_lib = "HV"  # "HVG" for relations evaluated against the module regenerated from the source
    max_cases_per_shard = 400
    max_chars_per_shard = 90_000
    budget = {"quick": 1000, "thorough": 20000}
    timeout_per_case = 120
    nproc = None
    anchors = []  # [(relative file, qualified function name)]

    def generate(self, rng, n, tier):
        raise NotImplementedError

    def exhaustive(self, tier):
        return []

    def run_impl(self, inp):
        raise NotImplementedError

    def encode(self, inp, obs):
        raise NotImplementedError

    def preamble(self):
        return ""

    def nontrivial(self, inp, obs):
        return True

    def classes(self, inp, obs):
        return []

    def shrink(self, inp):
        return []

    def mutate(self, inp, rng):
        return []

    def signature(self, inp, obs):
        return self.name


# ----------------------------------------------------------------------------
# isolated execution of the implementation


def _worker(fn, items, idxs, path):
    # Each worker writes one JSON line per finished case so that a crash of the
    # interpreter (abort() inside a C library) is attributable to one case.
    try:
        sys.stdout.flush()
        devnull = os.open(os.devnull, os.O_WRONLY)
        os.dup2(devnull, 1)
        os.dup2(devnull, 2)
    except Exception:
        pass
    with open(path, "a") as out:
        for i in idxs:
            out.write(json.dumps({"start": i}) + "\n")
            out.flush()
            try:
                r = fn(items[i])
            except BaseException as e:  # noqa
                r = {
                    "__exc__": type(e).__name__,
                    "kind": err_kind(e),
                    "msg": str(e)[:300],
                    "tb": traceback.format_exc()[-1500:],
                }
            out.write(json.dumps({"i": i, "r": r}) + "\n")
            out.flush()
    os._exit(0)


def run_isolated(fn, items, nproc=None, timeout_per_case=120, workdir=None):
    """Run fn over items in forked workers; returns list of results.

    A result is fn's (JSON-serialisable) return value, or a dict with key
    "__exc__" (uncaught Python exception), "__crash__" (worker died) or
    "__timeout__" (no progress for timeout_per_case seconds).
    """
    n = len(items)
    results = [None] * n
    if n == 0:
        return results
    nproc = max(1, min(nproc or NPROC, n))
    own = workdir is None
    workdir = workdir or tempfile.mkdtemp(prefix="hv_iso_")
    pending = [list(range(k, n, nproc)) for k in range(nproc)]
    procs = {}
    serial = [0]

    def launch(k):
        idxs = pending[k]
        if not idxs:
            return
        serial[0] += 1
        path = os.path.join(workdir, f"w{k}_{serial[0]}.jsonl")
        open(path, "w").close()
        p = _MP.Process(target=_worker, args=(fn, items, idxs, path))
        p.start()
        procs[k] = {"p": p, "path": path, "size": 0, "t": time.time(), "idxs": idxs}

    def harvest(k):
        info = procs[k]
        started = None
        with open(info["path"]) as f:
            for line in f:
                try:
                    d = json.loads(line)
                except Exception:
                    continue
                if "start" in d:
                    started = d["start"]
                else:
                    results[d["i"]] = d["r"]
                    if started == d["i"]:
                        started = None
        return started

    for k in range(nproc):
        launch(k)
    while procs:
        time.sleep(0.05)
        for k in list(procs):
            info = procs[k]
            p = info["p"]
            try:
                size = os.path.getsize(info["path"])
            except OSError:
                size = info["size"]
            if size != info["size"]:
                info["size"] = size
                info["t"] = time.time()
            alive = p.is_alive()
            timed_out = alive and time.time() - info["t"] > timeout_per_case
            if alive and not timed_out:
                continue
            if timed_out:
                p.kill()
            p.join()
            started = harvest(k)
            del procs[k]
            remaining = [i for i in info["idxs"] if results[i] is None]
            if remaining:
                bad = started if started is not None and results[started] is None else remaining[0]
                results[bad] = (
                    {"__timeout__": True, "kind": ERR_KINDS["Timeout"]}
                    if timed_out
                    else {"__crash__": p.exitcode, "kind": ERR_KINDS["Crash"]}
                )
                pending[k] = [i for i in remaining if i != bad]
                launch(k)
    if own:
        shutil.rmtree(workdir, ignore_errors=True)
    return results


# ----------------------------------------------------------------------------
# Coq side


FORBIDDEN = re.compile(
    r"\b(Admitted|admit|Axiom|Axioms|Parameter|Parameters|Conjecture|Conjectures|"
    r"Unset\s+Guard|bypass_check|Admit\s+Obligations|Unset\s+Universe\s+Checking|"
    r"Unset\s+Positivity)\b|type-in-type|impredicative-set"
)


def strip_coq_comments(src):
    out = []
    depth = 0
    i = 0
    while i < len(src):
        if src.startswith("(*", i):
            depth += 1
            i += 2
        elif src.startswith("*)", i) and depth:
            depth -= 1
            i += 2
        else:
            if not depth:
                out.append(src[i])
            i += 1
    return "".join(out)


def source_gate():
    """Fail closed on forbidden vernacular anywhere in the development."""
    problems = []
    for fn in sorted(os.listdir(THEORIES)):
        if not fn.endswith(".v"):
            continue
        src = strip_coq_comments(open(os.path.join(THEORIES, fn)).read())
        for m in FORBIDDEN.finditer(src):
            problems.append(f"{fn}: forbidden `{m.group(0)}`")
        # Variable/Hypothesis outside a Section
        depth = 0
        for sent in re.split(r"\.\s", src):
            s = sent.strip()
            if re.match(r"^(Section|Module)\b", s):
                depth += 1 if s.startswith("Section") else 0
            elif re.match(r"^End\b", s):
                depth = max(0, depth - 1) if depth else 0
            elif re.match(r"^(Variables?|Hypothes[ie]s|Context)\b", s) and depth == 0:
                problems.append(f"{fn}: `{s[:40]}` outside a Section")
    return problems


def ensure_makefile():
    mk = os.path.join(COQDIR, "Makefile")
    files = sorted(f for f in os.listdir(THEORIES) if f.endswith(".v"))
    proj = "-Q theories HV\n" + "".join(f"theories/{f}\n" for f in files)
    pj = os.path.join(COQDIR, "_CoqProject")
    old = open(pj).read() if os.path.exists(pj) else None
    if old != proj or not os.path.exists(mk):
        with open(pj, "w") as f:
            f.write(proj)
        subprocess.run(
            ["coq_makefile", "-f", "_CoqProject", "-o", "Makefile"],
            cwd=COQDIR,
            check=True,
            stdout=subprocess.DEVNULL,
            stderr=subprocess.DEVNULL,
        )


def build(modules, timeout=1500):
    """Build the given theory modules (and their dependencies). Returns (ok, log)."""
    import fcntl

    os.makedirs(os.path.join(VERIF, ".work"), exist_ok=True)
    with open(os.path.join(VERIF, ".work", "build.lock"), "w") as lock:
        fcntl.flock(lock, fcntl.LOCK_EX)
        try:
            ensure_makefile()
            targets = [f"theories/{m}.vo" for m in modules]
            p = subprocess.run(
                ["timeout", str(timeout), "make", "-j16"] + targets,
                cwd=COQDIR,
                capture_output=True,
                text=True,
            )
            return p.returncode == 0, (p.stdout + p.stderr)[-4000:]
        finally:
            fcntl.flock(lock, fcntl.LOCK_UN)


def compile_with_assumptions(src_path, allowed_axioms, extra_q=(), timeout=900, workdir=None, keep=False):
    """Compile one .v file (in a scratch copy unless workdir is given), capturing Print Assumptions.

    Returns dict(ok, theorems=[{name, closed, axioms, ok}], unprinted, log)."""
    module = os.path.splitext(os.path.basename(src_path))[0]
    src = strip_coq_comments(open(src_path).read())
    names = re.findall(r"Print\s+Assumptions\s+([A-Za-z0-9_'.]+)\s*\.", src)
    thm_names = re.findall(r"\b(?:Theorem|Corollary)\s+([A-Za-z0-9_']+)", src)
    if workdir is None:
        thm_names = re.findall(r"\b(?:Theorem|Lemma|Corollary|Example)\s+([A-Za-z0-9_']+)", src)
    work = workdir or tempfile.mkdtemp(prefix="hv_prop_")
    try:
        dst = os.path.join(work, module + ".v")
        if os.path.abspath(dst) != os.path.abspath(src_path):
            shutil.copy(src_path, dst)
        p = subprocess.run(
            ["timeout", str(timeout), "coqc", "-Q", THEORIES, "HV"] + list(extra_q) + [dst],
            capture_output=True,
            text=True,
            cwd=work,
        )
    finally:
        if workdir is None and not keep:
            shutil.rmtree(work, ignore_errors=True)
    out = p.stdout
    ok = p.returncode == 0
    # split the output into one block per Print Assumptions, in order
    blocks = re.split(r"(?=Closed under the global context|Axioms:)", out)
    blocks = [b for b in blocks if b.startswith("Closed") or b.startswith("Axioms:")]
    theorems = []
    for k, nm in enumerate(names):
        if k >= len(blocks):
            theorems.append({"name": nm, "closed": False, "axioms": ["<no output>"], "ok": False})
            ok = False
            continue
        b = blocks[k]
        if b.startswith("Closed"):
            theorems.append({"name": nm, "closed": True, "axioms": [], "ok": True})
        else:
            axs = re.findall(r"^([A-Za-z0-9_.']+)\s*:", b[len("Axioms:"):], flags=re.M)
            bad = [a for a in axs if a not in allowed_axioms]
            theorems.append({"name": nm, "closed": False, "axioms": axs, "ok": not bad})
            if bad:
                ok = False
    missing = [t for t in thm_names if t not in names]
    if missing:
        ok = False
    return {
        "ok": ok,
        "theorems": theorems,
        "unprinted": missing,
        "log": (p.stdout[-1500:] + p.stderr[-2500:]) if p.returncode else "",
    }


def check_property_file(module, allowed_axioms, timeout=900):
    """(Re)compile the Property file, capturing Print Assumptions output."""
    return compile_with_assumptions(os.path.join(THEORIES, module + ".v"), allowed_axioms, timeout=timeout)


# ----------------------------------------------------------------------------
# translation validation: model regenerated from the current source (harness/pytrans.py)

TRANSLATED = os.path.join(COQDIR, "translated")
EXTRA_Q = []  # set by run_check once the generated module is built: ["-Q", dir, "HVG"]


def _forbidden_in(text, label):
    src = strip_coq_comments(text)
    out = [f"{label}: forbidden `{m.group(0)}`" for m in FORBIDDEN.finditer(src)]
    depth = 0
    for sent in re.split(r"\.\s", src):
        st = sent.strip()
        if re.match(r"^Section\b", st):
            depth += 1
        elif re.match(r"^End\b", st):
            depth = max(0, depth - 1)
        elif re.match(r"^(Variables?|Hypothes[ie]s|Context)\b", st) and depth == 0:
            out.append(f"{label}: `{st[:40]}` outside a Section")
    return out


def translation_stage(mod):
    """Regenerate the MiniPy model of the selected functions from $HAPTOOLS_REPO's current source,
    compile it and the translation-validation proofs (coq/translated/*.v) against it.

    Returns None when the property has no TRANSLATION, else
    dict(ok, qdir, theorems, problems, generated_sha, cached)."""
    import fcntl
    from . import pytrans

    tr = getattr(mod, "TRANSLATION", None)
    if not tr:
        return None
    # the interpreter the generated module is compiled against must be up to date (no property lists it
    # in COQ_MODULES; its sources are part of the cache key below)
    build(["MiniPy", "MiniPyFacts"])
    gen_mod = tr["spec"]["module"]
    proofs = list(tr["proofs"])
    res = {"ok": False, "qdir": None, "theorems": [], "problems": [], "generated_sha": None, "cached": False,
           "functions": [f"{it[0]}:{it[1]}" + (f"[slice {it[2]['name']}]" if len(it) > 2 else "")
                         for it in tr["spec"]["functions"]]}
    def undischarged():
        out = []
        for pf in proofs:
            src = strip_coq_comments(open(os.path.join(TRANSLATED, pf + ".v")).read())
            for nm in re.findall(r"Print\s+Assumptions\s+([A-Za-z0-9_'.]+)\s*\.", src):
                out.append({"name": nm, "closed": False, "axioms": ["<not checked: no generated module>"], "ok": False})
        return out

    try:
        text = pytrans.translate(tr["spec"], REPO)
    except pytrans.Untranslatable as e:
        res["problems"].append(f"translator: the current source is outside the translated subset: {e}")
        res["theorems"] = undischarged()
        return res
    except (OSError, SyntaxError) as e:
        res["problems"].append(f"translator: cannot read the source: {e}")
        res["theorems"] = undischarged()
        return res
    res["generated_sha"] = hashlib.sha256(text.encode()).hexdigest()[:16]
    h = hashlib.sha256()
    h.update(text.encode())
    for pf in list(tr.get("models", [])) + proofs:
        h.update(open(os.path.join(TRANSLATED, pf + ".v"), "rb").read())
    for fn in sorted(os.listdir(THEORIES)):
        if fn.endswith(".v"):
            h.update(open(os.path.join(THEORIES, fn), "rb").read())
    key = h.hexdigest()[:20]
    qdir = os.path.join(VERIF, ".work", "tv", key)
    os.makedirs(qdir, exist_ok=True)
    with open(os.path.join(qdir, ".lock"), "w") as lock:
        fcntl.flock(lock, fcntl.LOCK_EX)
        try:
            rj = os.path.join(qdir, "result.json")
            if os.path.exists(rj):
                cached = json.load(open(rj))
                cached["cached"] = True
                cached["qdir"] = qdir if cached.get("built") else None
                return cached
            problems = _forbidden_in(text, gen_mod + ".v (generated)")
            for pf in proofs:
                problems += _forbidden_in(open(os.path.join(TRANSLATED, pf + ".v")).read(), pf + ".v")
            with open(os.path.join(qdir, gen_mod + ".v"), "w") as f:
                f.write(text)
            q = ["-Q", qdir, "HVG"]
            p = subprocess.run(["timeout", "600", "coqc", "-Q", THEORIES, "HV"] + q + [gen_mod + ".v"],
                               capture_output=True, text=True, cwd=qdir)
            built = p.returncode == 0
            if not built:
                problems.append("generated module does not compile: " + p.stderr[-800:])
            theorems = []
            allowed = set(getattr(mod, "ALLOWED_AXIOMS", []))
            for mf in (tr.get("models", []) if built else []):
                shutil.copy(os.path.join(TRANSLATED, mf + ".v"), os.path.join(qdir, mf + ".v"))
                problems += _forbidden_in(open(os.path.join(qdir, mf + ".v")).read(), mf + ".v")
                p = subprocess.run(["timeout", "600", "coqc", "-Q", THEORIES, "HV"] + q + [mf + ".v"],
                                   capture_output=True, text=True, cwd=qdir)
                if p.returncode:
                    built = False
                    problems.append(f"{mf}.v does not compile against the regenerated module: " + p.stderr[-800:])
            runnable = built
            if built:
                for pf in proofs:
                    shutil.copy(os.path.join(TRANSLATED, pf + ".v"), os.path.join(qdir, pf + ".v"))
                    r = compile_with_assumptions(os.path.join(qdir, pf + ".v"), allowed, extra_q=q, workdir=qdir)
                    if not r["ok"]:
                        problems.append(
                            f"translation validation {pf}: the model regenerated from the current source is no longer "
                            f"proved equal to the hand-written model: " + (r["log"] or "")[-1200:]
                            + " ".join(f"{t['name']}:{t['axioms']}" for t in r["theorems"] if not t["ok"])
                            + (" without Print Assumptions: " + ",".join(r["unprinted"]) if r["unprinted"] else ""))
                        # the theorems of a file that does not compile are all undischarged
                        src = strip_coq_comments(open(os.path.join(qdir, pf + ".v")).read())
                        names = re.findall(r"Print\s+Assumptions\s+([A-Za-z0-9_'.]+)\s*\.", src)
                        got = {t["name"]: t for t in r["theorems"]}
                        for nm in names:
                            t = got.get(nm, {"name": nm, "closed": False, "axioms": ["<not checked>"], "ok": False})
                            if r["log"]:
                                t = dict(t, ok=False)
                            theorems.append(t)
                        built = False if r["log"] else built
                    else:
                        theorems += r["theorems"]
            out = dict(res, ok=not problems, theorems=theorems, problems=problems, built=runnable)
            if runnable:
                # a generated module (or model file) that does not compile is not cached: the cause may
                # lie outside the cache key (a stale .vo of a dependency), and the next run must retry
                with open(rj, "w") as f:
                    json.dump(out, f)
            out["qdir"] = qdir if runnable else None
            return out
        finally:
            fcntl.flock(lock, fcntl.LOCK_UN)


SHARD_HEADER = """From HV Require Import Prelude {imports}.
From {lib} Require Import {mod}.
Open Scope Z_scope.
{preamble}
Definition cases : list {ctype} := [
{body}
].
Definition result := Eval vm_compute in (bad_indices {mod}.{chk} cases).
Print result.
"""


def _parse_result(out):
    m = re.search(r"result\s*=\s*\((.*?)\)\s*:\s*list Z \* list Z", out, flags=re.S)
    if not m:
        return None
    body = m.group(1)
    # body is "[..], [..]" possibly across lines
    depth = 0
    cut = None
    for i, ch in enumerate(body):
        if ch == "[":
            depth += 1
        elif ch == "]":
            depth -= 1
            if depth == 0:
                cut = i + 1
                break
    a, b = body[:cut], body[cut:]
    ints = lambda s: [int(x) for x in re.findall(r"-?\d+", s)]
    return ints(a), ints(b)


def _run_shard(args):
    path, timeout = args
    t0 = time.time()
    p = subprocess.run(
        ["timeout", str(timeout), "coqc", "-Q", THEORIES, "HV"] + list(EXTRA_Q) + [path],
        capture_output=True,
        text=True,
        cwd=os.path.dirname(path),
    )
    return path, p.returncode, p.stdout, p.stderr[-3000:], time.time() - t0


def eval_cases(rel, terms, workdir, tag="s", timeout=900):
    """Evaluate encoded cases in Coq. Returns (agree_bad_idx, holds_bad_idx).

    Raises HarnessError if a shard does not compile (an encoding bug or a
    broken development; never a property violation)."""
    shards = []
    cur, cur_chars, start = [], 0, 0
    bounds = []
    for i, t in enumerate(terms):
        if cur and (len(cur) >= rel.max_cases_per_shard or cur_chars + len(t) > rel.max_chars_per_shard):
            shards.append(cur)
            bounds.append(start)
            cur, cur_chars, start = [], 0, i
        cur.append(t)
        cur_chars += len(t)
    if cur:
        shards.append(cur)
        bounds.append(start)
    jobs = []
    for k, sh in enumerate(shards):
        name = f"cases_{rel.coq_module}_{rel.name}_{tag}_{k}".replace("-", "_")
        path = os.path.join(workdir, name + ".v")
        with open(path, "w") as f:
            f.write(
                SHARD_HEADER.format(
                    mod=rel.coq_module,
                    lib=rel.coq_lib,
                    imports=" ".join(rel.coq_imports),
                    ctype=rel.coq_case_type if "." in rel.coq_case_type else f"{rel.coq_module}.{rel.coq_case_type}",
                    chk=rel.coq_check,
                    preamble=rel.preamble(),
                    body=";\n".join(sh),
                )
            )
        jobs.append((path, timeout))
    agree_bad, holds_bad = [], []
    if not jobs:
        return agree_bad, holds_bad
    with _MP.Pool(min(NPROC, len(jobs))) as pool:
        outs = pool.map(_run_shard, jobs)
    for (path, rc, out, err, dt), base in zip(outs, bounds):
        parsed = _parse_result(out) if rc == 0 else None
        if parsed is None:
            keep = os.path.join(VERIF, ".work", "failed_" + os.path.basename(path))
            os.makedirs(os.path.dirname(keep), exist_ok=True)
            shutil.copy(path, keep)
            raise HarnessError(f"coqc failed on {keep} (rc={rc}): {err[-1200:]} {out[-300:]}")
        a, h = parsed
        agree_bad += [base + i for i in a]
        holds_bad += [base + i for i in h]
    return sorted(agree_bad), sorted(holds_bad)


def eval_model_output(rel, term, workdir):
    """Printable model output for one case (used in replay files)."""
    if not rel.coq_model:
        return None
    path = os.path.join(workdir, f"model_{rel.coq_module}_{rel.name}.v")
    with open(path, "w") as f:
        f.write(
            f"From HV Require Import Prelude {' '.join(rel.coq_imports)}.\nFrom {rel.coq_lib} Require Import {rel.coq_module}.\n"
            f"Open Scope Z_scope.\n{rel.preamble()}\n"
            f"Definition c : {rel.coq_case_type if '.' in rel.coq_case_type else rel.coq_module + '.' + rel.coq_case_type} := {term}.\n"
            f"Eval vm_compute in ({rel.coq_module}.{rel.coq_model} c).\n"
        )
    p = subprocess.run(
        ["timeout", "300", "coqc", "-Q", THEORIES, "HV"] + list(EXTRA_Q) + [path], capture_output=True, text=True, cwd=workdir
    )
    return (p.stdout if p.returncode == 0 else p.stderr)[-4000:].strip()


class HarnessError(Exception):
    pass


# ----------------------------------------------------------------------------
# anchors (change-triggered escalation)


def _func_hash(relfile, qualname):
    import ast

    path = os.path.join(REPO, relfile)
    try:
        tree = ast.parse(open(path).read())
    except Exception:
        return "unparsable"
    parts = qualname.split(".")

    def find(body, parts):
        for node in body:
            if isinstance(node, (ast.FunctionDef, ast.ClassDef, ast.AsyncFunctionDef)) and node.name == parts[0]:
                if len(parts) == 1:
                    return node
                return find(node.body, parts[1:])
        return None

    node = find(tree.body, parts)
    if node is None:
        return "missing"
    for sub in ast.walk(node):
        body = getattr(sub, "body", None)
        if (
            isinstance(body, list)
            and body
            and isinstance(body[0], ast.Expr)
            and isinstance(getattr(body[0], "value", None), ast.Constant)
            and isinstance(body[0].value.value, str)
        ):
            body[0].value.value = ""
    return hashlib.sha256(ast.dump(node, include_attributes=False).encode()).hexdigest()[:16]


def _module_hash(relfile):
    """Hash of a whole source file (docstrings blanked): a change anywhere in a file that holds an
    anchored function escalates the budget too (helpers, sibling classes, module constants)."""
    import ast

    try:
        tree = ast.parse(open(os.path.join(REPO, relfile)).read())
    except Exception:
        return "unparsable"
    for sub in ast.walk(tree):
        body = getattr(sub, "body", None)
        if (
            isinstance(body, list)
            and body
            and isinstance(body[0], ast.Expr)
            and isinstance(getattr(body[0], "value", None), ast.Constant)
            and isinstance(body[0].value.value, str)
        ):
            body[0].value.value = ""
    return hashlib.sha256(ast.dump(tree, include_attributes=False).encode()).hexdigest()[:16]


def anchor_state(mod):
    cur = {}
    for rel in mod.RELATIONS:
        for relfile, q in rel.anchors:
            cur[f"{relfile}::{q}"] = _func_hash(relfile, q)
            cur[f"{relfile}::<module>"] = _module_hash(relfile)
    path = os.path.join(VERIF, "anchors.json")
    saved = {}
    if os.path.exists(path):
        saved = json.load(open(path)).get(mod.PROP, {})
    changed = sorted(k for k in cur if saved.get(k) != cur[k])
    return cur, changed


def record_anchors(mods):
    path = os.path.join(VERIF, "anchors.json")
    data = json.load(open(path)) if os.path.exists(path) else {}
    for mod in mods:
        cur, _ = anchor_state(mod)
        data[mod.PROP] = cur
    with open(path, "w") as f:
        json.dump(data, f, indent=1, sort_keys=True)
        f.write("\n")


# ----------------------------------------------------------------------------
# known findings


def load_known():
    path = os.path.join(VERIF, "known_findings.json")
    if not os.path.exists(path):
        return []
    return json.load(open(path)).get("findings", [])


def match_known(prop, rel, sig):
    for f in load_known():
        if f.get("property") != prop or f.get("status") != "known":
            continue
        m = f.get("match", {})
        if m.get("relation") not in (None, rel.name):
            continue
        if re.search(m.get("signature_regex", r"$^"), sig):
            return f
    return None


# ----------------------------------------------------------------------------
# the check


def canon(x):
    return json.dumps(x, sort_keys=True, separators=(",", ":"))


def load_corpus(prop, rel):
    d = os.path.join(VERIF, "corpus", prop)
    out = []
    if os.path.isdir(d):
        for fn in sorted(os.listdir(d)):
            if fn.endswith(".json"):
                c = json.load(open(os.path.join(d, fn)))
                if c.get("relation") == rel.name:
                    out.append(c["input"])
    return out


def _impl(rel, inputs, workdir):
    return run_isolated(rel.run_impl, inputs, nproc=rel.nproc, timeout_per_case=rel.timeout_per_case)


def _evaluate(rel, inputs, workdir, tag):
    """Run the implementation and the Coq evaluation on inputs.

    encode may return one term or a list of terms (one input expanding to
    several Coq cases, e.g. all children of one simulated generation); an
    input is bad when any of its terms is."""
    obs = _impl(rel, inputs, workdir)
    terms, flat, owner = [], [], []
    for k, (i, o) in enumerate(zip(inputs, obs)):
        t = rel.encode(i, o)
        t = [t] if isinstance(t, str) else list(t)
        terms.append(t)
        flat += t
        owner += [(k, j) for j in range(len(t))]
    a, h = eval_cases(rel, flat, workdir, tag=tag)
    sub = {}
    for idx in a:
        sub.setdefault(owner[idx][0], {"agree": [], "holds": []})["agree"].append(owner[idx][1])
    for idx in h:
        sub.setdefault(owner[idx][0], {"agree": [], "holds": []})["holds"].append(owner[idx][1])
    _evaluate.last_sub = sub
    return obs, terms, set(owner[i][0] for i in a), set(owner[i][0] for i in h)


def shrink_case(rel, inp, workdir, want, rounds=25):
    """Greedy structural shrinking with the Coq-evaluated predicate as oracle.

    want = 'holds' (keep holds=false) or 'agree' (keep agree=false)."""
    cur = inp
    # at most VERIF_SHRINK_S seconds per case and 2x that per check run
    per = float(os.environ.get("VERIF_SHRINK_S", "40"))
    if not hasattr(shrink_case, "run_deadline"):
        shrink_case.run_deadline = time.time() + 2 * per
    deadline = min(time.time() + per, shrink_case.run_deadline)
    for r in range(rounds):
        if time.time() > deadline:
            break
        cands = list(rel.shrink(cur))[:60]
        if not cands:
            break
        try:
            obs, terms, a, h = _evaluate(rel, cands, workdir, f"shr{r}")
        except HarnessError:
            break
        bad = h if want == "holds" else a
        if not bad:
            break
        cur = cands[min(bad)]
    return cur


def write_replay(prop, rel, inp, obs, term, kind, detail, workdir):
    os.makedirs(os.path.join(VERIF, "replay"), exist_ok=True)
    hsh = hashlib.sha256(canon([rel.name, inp]).encode()).hexdigest()[:12]
    path = os.path.join(VERIF, "replay", f"{prop}_{rel.name}_{hsh}.json")
    model_out = None
    sub = None
    if isinstance(term, list):
        bad = getattr(_evaluate, "last_sub", {}).get(0, {}) if len(term) > 1 else {}
        sub = (bad.get("holds") or bad.get("agree") or [0])[0] if term else None
        term = term[sub] if term else "<no term>"
    try:
        model_out = eval_model_output(rel, term, workdir)
    except Exception as e:  # noqa
        model_out = f"<model evaluation failed: {e}>"
    data = {
        "property": prop,
        "relation": rel.name,
        "kind": kind,
        "detail": detail,
        "input": inp,
        "observed": obs,
        "model_output": model_out,
        "failing_sub_case": sub,
        "coq_term": term if len(term) < 20000 else term[:20000] + "...",
        "coq_check": f"HV.{rel.coq_module}.{rel.coq_check}",
        "signature": rel.signature(inp, obs),
        "repo": REPO,
        "replay_cmd": f"./check --replay {os.path.relpath(path, VERIF)}",
    }
    with open(path, "w") as f:
        json.dump(data, f, indent=1)
        f.write("\n")
    return path


def run_check(mod, tier, seed, only_relations=None):
    import numpy as np

    t0 = time.time()
    prop = mod.PROP
    lines = []
    violations = []  # (path, suffix)
    known_seen = []
    workdir = tempfile.mkdtemp(prefix=f"hv_{prop}_")
    ev = {
        "property_id": prop,
        "tier": tier,
        "seed": seed,
        "level": "proof",
        "coverage": {},
        "assumptions": list(getattr(mod, "ASSUMPTIONS", [])),
        "wall_s": 0.0,
        "violations": 0,
    }
    cov = ev["coverage"]
    try:
        import haptools

        if not os.path.abspath(haptools.__file__).startswith(os.path.abspath(REPO) + os.sep):
            raise HarnessError(f"haptools imported from {haptools.__file__}, not from {REPO}")
        # ---- proof gate
        gate_problems = source_gate()
        ok, log = build(list(mod.COQ_MODULES) + [mod.PROPERTY_MODULE])
        if not ok:
            gate_problems.append("build failed: " + log[-1500:])
        pinfo = {"ok": False, "theorems": [], "unprinted": [], "log": ""}
        if ok:
            pinfo = check_property_file(mod.PROPERTY_MODULE, set(getattr(mod, "ALLOWED_AXIOMS", [])))
            if not pinfo["ok"]:
                gate_problems.append(
                    "property file: "
                    + (pinfo["log"] or "")
                    + " ".join(f"{t['name']}:{t['axioms']}" for t in pinfo["theorems"] if not t["ok"])
                    + (" theorems without Print Assumptions: " + ",".join(pinfo["unprinted"]) if pinfo["unprinted"] else "")
                )
        # ---- translation validation (model regenerated from the current source)
        tv = translation_stage(mod) if ok else None
        if tv is not None:
            cov["translation"] = {k: tv.get(k) for k in ("ok", "functions", "generated_sha", "cached", "problems")}
            if tv.get("qdir"):
                EXTRA_Q[:] = ["-Q", tv["qdir"], "HVG"]
            pinfo["theorems"] = list(pinfo["theorems"]) + [dict(t, name="translated:" + t["name"]) for t in tv["theorems"]]
            if not tv["ok"]:
                gate_problems += tv["problems"] or ["translation validation failed"]
        gate_red = bool(gate_problems)
        n_thm = len(pinfo["theorems"])
        n_thm_ok = sum(1 for t in pinfo["theorems"] if t["ok"])
        if tier == "thorough" and ok and not gate_red:
            cres = coqchk(mod.PROPERTY_MODULE)
            cov["coqchk"] = cres
            if not cres["ok"]:
                gate_red = True
                gate_problems.append("coqchk: " + cres["log"][-800:])
        cur_anchors, changed = anchor_state(mod)
        escalate0 = bool(changed)
        rels = [r for r in mod.RELATIONS if not only_relations or r.name in only_relations]
        rel_stats = {}
        total_eval = 0
        nontriv = set()
        samples = []
        distribution = {}
        disagreements = 0
        rel_ok = 0
        broken_rel = []  # (rel, inp, obs, term)
        if not ok:
            rels = []  # cannot evaluate cases without the compiled development
        if tv is not None and not tv.get("qdir"):
            # relations evaluated against the regenerated module cannot run without it
            rels = [r for r in rels if r.coq_lib != "HVG"]
        for rel in rels:
            rng = np.random.default_rng([seed, int(hashlib.sha256(rel.name.encode()).hexdigest()[:8], 16)])
            corpus = load_corpus(prop, rel)
            n = rel.budget.get(tier, rel.budget["quick"])
            if escalate0 and tier == "quick":
                n *= 5
            inputs = list(corpus) + list(rel.generate(rng, n, tier))
            if tier == "thorough" or escalate0:
                inputs += list(rel.exhaustive(tier))
            obs, terms, abad, hbad = _evaluate(rel, inputs, workdir, "main")
            total_eval += len(inputs)
            for i, (inp, o) in enumerate(zip(inputs, obs)):
                for c in rel.classes(inp, o):
                    key = f"{rel.name}:{c}"
                    distribution[key] = distribution.get(key, 0) + 1
                if rel.nontrivial(inp, o):
                    nontriv.add(hashlib.sha256(canon([rel.name, inp]).encode()).hexdigest())
            for i in list(range(min(2, len(inputs)))) + ([len(inputs) - 1] if len(inputs) > 2 else []):
                samples.append({"relation": rel.name, "input": inputs[i], "observed": obs[i]})
            rel_stats[rel.name] = {
                "cases": len(inputs),
                "corpus": len(corpus),
                "agree_false": len(abad),
                "holds_false": len(hbad),
            }
            disagreements += len(abad)
            # ---- violations proper: holds = false on the implementation's output
            reported = set()
            unlisted = 0   # failing cases that no known-findings entry covers
            for i in sorted(hbad):
                sig0 = rel.signature(inputs[i], obs[i])
                kf = match_known(prop, rel, sig0)
                if not kf:
                    unlisted += 1
                if sig0 in reported or len(reported) >= 6:
                    continue
                reported.add(sig0)
                if kf:
                    if kf["id"] not in known_seen:
                        known_seen.append(kf["id"])
                        lines.append(f"KNOWN-FINDING: property={prop} {kf['what']}")
                    continue
                small = shrink_case(rel, inputs[i], workdir, "holds") if inputs[i] not in corpus else inputs[i]
                so, st, sa, sh = _evaluate(rel, [small], workdir, "min")
                if not sh or rel.signature(small, so[0]) != sig0:
                    # shrinking drifted to another failure: report the original
                    small = inputs[i]
                    so, st, sa, sh = _evaluate(rel, [small], workdir, "min")
                path = write_replay(prop, rel, small, so[0], st[0], "property-fails",
                                    "holds=false on the implementation's output", workdir)
                violations.append((path, ""))
            rel_stats[rel.name]["holds_false_listed_as_known"] = len(hbad) - unlisted
            if not abad and not unlisted:
                # every case agrees with the model, and every case on which the property fails is a
                # recorded known finding (known_findings.json, status known): reported above, not an alarm
                rel_ok += 1
            elif abad and not hbad:
                i = min(abad)
                broken_rel.append((rel, inputs[i], obs[i], terms[i], [inputs[j] for j in sorted(abad)[:20]]))
        # ---- correspondence or proof broken but no failing input yet: search harder
        if not violations and (broken_rel or gate_red):
            found = False
            for rel, inp, o, term, dis in broken_rel:
                rng = np.random.default_rng([seed + 1, 7])
                extra = []
                for d in dis:
                    extra += list(rel.mutate(d, rng))[:50]
                extra += list(rel.generate(rng, rel.budget.get("thorough", rel.budget["quick"]) // 2, "thorough"))
                extra += list(rel.exhaustive("thorough"))
                eobs, eterms, ea, eh = _evaluate(rel, extra, workdir, "esc")
                total_eval += len(extra)
                rel_stats[rel.name]["escalation_cases"] = len(extra)
                real = []
                for i in sorted(eh):
                    sig = rel.signature(extra[i], eobs[i])
                    kf = match_known(prop, rel, sig)
                    if kf:
                        if kf["id"] not in known_seen:
                            known_seen.append(kf["id"])
                            lines.append(f"KNOWN-FINDING: property={prop} {kf['what']}")
                    else:
                        real.append(i)
                if real:
                    i = real[0]
                    small = shrink_case(rel, extra[i], workdir, "holds")
                    so, st, sa, sh = _evaluate(rel, [small], workdir, "min")
                    if not sh:
                        small, so, st = extra[i], [eobs[i]], [eterms[i]]
                    path = write_replay(prop, rel, small, so[0], st[0], "property-fails",
                                        "found by escalated search after a correspondence break", workdir)
                    violations.append((path, ""))
                    found = True
                else:
                    small = shrink_case(rel, inp, workdir, "agree")
                    so, st, sa, sh = _evaluate(rel, [small], workdir, "min")
                    if not sa:
                        small, so, st = inp, [o], [term]
                    path = write_replay(
                        prop, rel, small, so[0], st[0], "correspondence-broken",
                        f"model HV.{rel.coq_module}.{rel.coq_check} no longer describes the implementation; "
                        f"no input violating the property was found in {len(extra)} further cases",
                        workdir,
                    )
                    violations.append((path, " no-failing-input-found"))
            if gate_red and not found and not broken_rel:
                # a proof obligation (or the translation of the current source) no longer checks although
                # model and implementation still agree on the sampled cases: search every relation harder
                # for an input on which the property fails before reporting that none was found
                for rel in rels:
                    rng = np.random.default_rng([seed + 1, 11])
                    extra = list(rel.generate(rng, rel.budget.get("thorough", rel.budget["quick"]) // 2, "thorough"))
                    extra += list(rel.exhaustive("thorough"))
                    eobs, eterms, ea, eh = _evaluate(rel, extra, workdir, "gesc")
                    total_eval += len(extra)
                    rel_stats[rel.name]["escalation_cases"] = len(extra)
                    real = [i for i in sorted(eh) if not match_known(prop, rel, rel.signature(extra[i], eobs[i]))]
                    if real:
                        i = real[0]
                        small = shrink_case(rel, extra[i], workdir, "holds")
                        so, st, sa, sh = _evaluate(rel, [small], workdir, "min")
                        if not sh:
                            small, so, st = extra[i], [eobs[i]], [eterms[i]]
                        path = write_replay(prop, rel, small, so[0], st[0], "property-fails",
                                            "found by escalated search after a proof obligation broke", workdir)
                        violations.append((path, ""))
                        found = True
                        break
            if gate_red and not found and not broken_rel:
                os.makedirs(os.path.join(VERIF, "replay"), exist_ok=True)
                path = os.path.join(VERIF, "replay", f"{prop}_proof_gate.json")
                with open(path, "w") as f:
                    json.dump({"property": prop, "kind": "proof-obligation-broken", "problems": gate_problems,
                               "theorems": pinfo["theorems"]}, f, indent=1)
                violations.append((path, " no-failing-input-found"))
        # ---- evidence
        n_rel = len(mod.RELATIONS)
        cov.update(
            {
                "obligations": n_thm + n_rel,
                "discharged": (0 if gate_red else n_thm_ok) + rel_ok,
                "checker_cmd": f"coqc -Q coq/theories HV coq/theories/{mod.PROPERTY_MODULE}.v (after make of {','.join(mod.COQ_MODULES)}); "
                               f"case shards: coqc + vm_compute of HV.<module>.<check> over generated cases",
                "trusted_base": list(getattr(mod, "TRUSTED", [])) + [
                    "Coq 8.16.1 kernel + vm_compute (no native_compute)",
                    ("hand-written Gallina model; for the functions listed in coverage.translation the model is also "
                     "regenerated from the current source on every run (harness/pytrans.py -> MiniPy syntax, "
                     "interpreted by HV.MiniPy) and proved equal to the hand-written one (coq/translated); trusted "
                     "there: the translator and the interpreter's reading of Python, both exercised by the tv_* "
                     "relation; everything else is tied to the code by the correspondence run below")
                    if tv is not None else
                    "hand-written Gallina model tied to the code only by the correspondence run below",
                    "harness: generators, Python->Gallina literal printer, recorders (harness/*.py)",
                ],
                "theorems": pinfo["theorems"],
                "gate_problems": gate_problems,
                "traces_validated_against_impl": total_eval - disagreements,
                "evaluations": total_eval,
                "distinct_nontrivial": len(nontriv),
                "rule": getattr(mod, "RULE", ""),
                "samples": samples[:8],
                "distribution": distribution,
                "relations": rel_stats,
                "disagreements_checked": disagreements,
                "known_findings_seen": known_seen,
                "anchors_changed": changed,
                "repo": REPO,
            }
        )
    except HarnessError as e:
        print(f"HARNESS-ERROR property={prop}: {e}")
        shutil.rmtree(workdir, ignore_errors=True)
        return 2
    finally:
        shutil.rmtree(workdir, ignore_errors=True)
    ev["wall_s"] = round(time.time() - t0, 2)
    ev["violations"] = len(violations)
    # evidence/ only ever describes runs against /repo itself; runs against a scratch tree
    # (HAPTOOLS_REPO=...) used for self-tests write next to it in .work/
    evdir = os.path.join(VERIF, "evidence") if os.path.abspath(REPO) == "/repo" else os.path.join(VERIF, ".work", "evidence_scratch")
    os.makedirs(evdir, exist_ok=True)
    with open(os.path.join(evdir, f"{prop}.json"), "w") as f:
        json.dump(ev, f, indent=1, default=str)
        f.write("\n")
    for ln in lines:
        print(ln)
    for path, suffix in violations:
        print(f"VIOLATION property={prop} replay={path}{suffix}")
    print(
        f"{prop} {tier}: theorems {n_thm_ok}/{n_thm}"
        f" relations {rel_ok}/{n_rel} cases {total_eval} nontrivial {len(nontriv)}"
        f" disagreements {disagreements} violations {len(violations)} known {len(known_seen)}"
        f" wall {ev['wall_s']}s"
    )
    return 1 if violations else 0


def coqchk(module, timeout=1500):
    p = subprocess.run(
        ["timeout", str(timeout), "coqchk", "-silent", "-o", "-Q", THEORIES, "HV", f"HV.{module}"],
        capture_output=True, text=True, cwd=COQDIR,
    )
    out = p.stdout + p.stderr
    axioms = re.findall(r"^\s+([A-Za-z0-9_.']+)\s*$", out.split("Axioms:")[-1], flags=re.M) if "Axioms:" in out else []
    return {"ok": p.returncode == 0, "axioms": axioms, "log": out[-3000:]}


def replay(path, mods):
    data = json.load(open(path))
    mod = mods[data["property"]]
    if data.get("kind") == "proof-obligation-broken":
        ok, log = build(list(mod.COQ_MODULES) + [mod.PROPERTY_MODULE])
        pinfo = check_property_file(mod.PROPERTY_MODULE, set(getattr(mod, "ALLOWED_AXIOMS", []))) if ok else {"ok": False}
        print("proof gate:", "green" if ok and pinfo["ok"] else "red")
        return 0 if ok and pinfo["ok"] else 1
    rel = [r for r in mod.RELATIONS if r.name == data["relation"]][0]
    ok, log = build(list(mod.COQ_MODULES) + [mod.PROPERTY_MODULE])
    if not ok:
        print("HARNESS-ERROR build failed", log[-800:])
        return 2
    workdir = tempfile.mkdtemp(prefix="hv_replay_")
    try:
        obs, terms, a, h = _evaluate(rel, [data["input"]], workdir, "replay")
        print("input    :", canon(data["input"])[:2000])
        print("observed :", canon(obs[0])[:2000])
        sub = getattr(_evaluate, "last_sub", {}).get(0, {})
        j = (sub.get("holds") or sub.get("agree") or [0])[0]
        print("sub-case :", j, "of", len(terms[0]))
        print("model    :", eval_model_output(rel, terms[0][j], workdir) if terms[0] else None)
        print("agree    :", not a)
        print("holds    :", not h)
        if h:
            print(f"VIOLATION property={data['property']} replay={path}")
        return 1 if (a or h) else 0
    finally:
        shutil.rmtree(workdir, ignore_errors=True)
