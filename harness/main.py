import importlib
import os
import sys

from . import core

PROPS = [f"C{i:02d}" for i in range(1, 21)]


def load(prop):
    return importlib.import_module(f"harness.{prop.lower()}")


def available():
    mods = {}
    for p in PROPS:
        if os.path.exists(os.path.join(core.VERIF, "harness", p.lower() + ".py")):
            mods[p] = load(p)
    return mods


def main(argv):
    if len(argv) >= 2 and argv[0] == "--replay":
        return core.replay(argv[1], available())
    if argv and argv[0] == "--record-anchors":
        mods = available()
        core.record_anchors([mods[p] for p in (argv[1:] or mods)])
        return 0
    if not argv:
        print("usage: ./check Cxx [quick|thorough] [relation ...] | ./check --replay FILE | ./check --record-anchors [Cxx ...]")
        return 2
    prop = argv[0].upper()
    tier = argv[1] if len(argv) > 1 else os.environ.get("VERIF_TIER", "quick")
    seed = int(os.environ.get("VERIF_SEED", "0"))
    return core.run_check(load(prop), tier, seed, only_relations=argv[2:] or None)


if __name__ == "__main__":
    sys.exit(main(sys.argv[1:]))
