"""Fail-closed translator: selected pure Python functions of /repo -> MiniPy syntax (Gallina).

`translate(spec, repo)` parses the *current* source files with `ast` and returns the text of a Coq
module defining, for each requested function, `src_<name> : fundef` (the abstract syntax), and
`fn_<name> : nat -> list val -> res (val * list val)` (its interpretation by HV.MiniPy.run_fun with
the previously translated functions in its function table).  Anything outside the subset below raises
`Untranslatable` (the check then reports the proof obligation as broken: nothing is guessed).

Subset: module-level functions without defaults/varargs/decorators; statements = docstring, assignment
to a name / to name[index], augmented assignment to a name, `x.append(e)` / `x[i].append(e)` as a
statement, if/elif/else, while (no else), for over an expression (no else; the body may not mutate the
iterated name), return, break, continue, `raise <ExceptionClass>(...)`, calls of already translated
functions as statements / single assignment / if-condition / return value; expressions = int/bool/None
literals, names (parameters and locals only), + - * // %, comparisons (single operator), and/or/not,
unary minus, indexing, slicing without step, tuples, lists, len(), range(n), attribute / getter-method
access on objects of translated classes (classes whose __init__ only stores its parameters and whose
used methods are `return self.<attr>`), construction of such objects, calls of translated functions
that mutate none of their parameters.  Aliasing guard: a plain `name = othername` assignment is
rejected (two names for one mutable list would break the by-value reading of append).

Extensions used by C17 (each is off unless the spec asks for it):
* floats: a float literal is its exact rational value (`EFloat`); comparisons of floats (and of a float with an int)
  are exact (`VQ`); `abs(x)`; `a / b` on ints is a call of "$truediv" in the function table, whose rounding is the
  Section variable `fdiv` of the generated module (spec["float_div"] = True); no other float arithmetic.
* `x in l` / `x not in l` (`EIn`; rejected if a translated class defines __eq__), `x is None` / `x is not None`
  (== / != None: no translated class overrides __eq__).
* state classes, spec["state_classes"] = [(file, Class, id, [attrs])]: an object is `VObj id [attr values]`; a method
  (spec function "Class.method") is a function whose first parameter is the object; it may read `self.<attr>` and, as
  its LAST top-level statement only, rebind `self.<attr> = e` (the object is then a mutated parameter, written back
  by the caller); any other use of an attribute of self is rejected.  `obj.method(args)` is a call of that function
  when `obj` is `self` or a name declared in the slice's "objects" (checked: bound once, by `obj = Class(...)`).
* externals, spec["externals"] = [(file, function)]: module-level functions that are NOT translated; a call is a call
  of the Section variable `ext_<f> : list val -> res val` (any function of the argument values that mutates none).
* spec["outputs"] = {"WriteClump": {"stream": "$out", "args": [0, 1]}}: the statement `WriteClump(a, b, f)` appends the
  tuple (a, b) to the list parameter "$out"; the other arguments must be plain names.
* spec["ignore_calls"] = ["log.debug"]: such a call statement is skipped (logging; its arguments are not evaluated).
* a while-slice {"name", "while_var", "params", "objects"}: the statement `<while_var> = ...` immediately followed by
  `while <while_var> is not None:` at the top level of the function, as a synthetic function.

Extensions used by C18 (karyogram.py; each is off unless the spec asks for it, except the purely additive forms):
* always (formerly rejected): dict literals (`EDict`), `assert e` without message (= if not e: raise AssertionError),
  `for i, x in enumerate(e)` (`EEnumerate`), `x.copy()` (`ECopy`: lists and dicts are values), a store through several
  subscripts `x[i][j][k] = e` (`SSetPath`: e first, then the indices).  Such a store into a name that an enclosing for
  loop iterates over (the loop variables then hold the OLD elements) is accepted only if the last subscript is a string
  literal K and, inside that loop nest, the loop variables bound from the iterated value are only read through a string
  literal subscript other than K, or iterated over in turn (so the stale copies are never observed).
* spec["text"] = True: a string literal is its code points (`EText` / `VText`: == by content, len, slices, `a in b` =
  substring); otherwise an opaque token (`EStr`).
* spec["ext_methods"] = ["strip", "split", ...]: `e.m(args)` for such an m (e not a declared state object) is a call of
  the Section variable `extm_<m> : list val -> res val` on (value of e) :: argument values - any function of them;
  spec["ext_builtins"] = ["int", "float"]: `int(e)` / `float(e)` likewise (`extb_<f>`); spec["ext_dotted"] =
  ["os.path.exists", "open"]: calls of these dotted names likewise (`extc_<name with _ for .>`).
* spec["float_add"] = True: `a + b` where a or b is a float literal is a call of the Section variable `fadd` on the two
  values (binary64 addition is not modelled: any function).
* spec["exit_calls"] = ["sys.exit"]: such a call statement raises SystemExit (kind 10; the status is not modelled).
* spec["with_open"] = True: `with open(...) as f: body` = `f = open(...)` (the external "open": what iterating over the
  file yields, as a list) followed by body (closing the file has no effect the model can see).
* spec["allow_defaults"] = True: parameters may have constant defaults (every translated call passes all arguments).
* spec["rhs_first_stores"] = True: `x[i] = e` is emitted as `SSetPath` too (e evaluated before i, as Python does;
  the older `SSetIdx` evaluates i first, which only matters when both can raise).

Extensions used by C15 / C02 (second translation-validation pass; all purely additive):
* a *top-level statement slice* of a function or method, third element of a spec function
  {"name", "top": True, "in_class": C or absent, "start": {"assign": v} | {"if_name": v} | {"with_open": True},
   "stop": {"before_if_raise": True} | {"through_assign": v} | {"before_return": True}, "params": [...], "result": v or None,
   "self_attrs": {"names": "self_names"}, "class_chain": [(file, Class), ...], "text": True/False (overrides spec["text"]),
   "write": {"method": "write", "stream": "$out"}, "ext_str": True}:
  the consecutive top-level statements from the first one matching "start" up to "stop", as a synthetic function that
  returns `result`.  "self_attrs": a READ of `self.<attr>` becomes a read of the named parameter (by value: the slice may
  not store into an attribute of self, call a method of self or use `self` otherwise - rejected); "class_chain" must list
  the class of the method and all its base classes up to ABC/object, none of which may define the attribute as a
  property / class attribute or define __getattr__ / __getattribute__ / __setattr__.
* containers: `x = Counter()` (the module must have `from collections import Counter` and bind the name in no other way)
  and `x = set()`: `ECounter` / `ESet`.  Such a name must be bound exactly once in the function, and may only occur as
  `x[k]` (read, `x[k] = e`, `x[k] += e`: Counter), `k in x` / `k not in x`, `x.add(e)` (set) - so the value never reaches
  ==, len(), iteration, a call or the result.
* `x[k] op= e` for a name x and a name / constant k: `SSetPath x [k] (x[k] op e)` (k has no effect and is read twice).
* an f-string without conversions / format specs (text mode only): `EFmt`, parts left to right; str / int parts are
  interpreted, any other value goes to the untranslated "$str": Section variable `ext_str`, declared for the whole module
  (spec["ext_str"] = True) or from one slice on (slice key "ext_str": True opens `Section GenStr` there, so that the text
  and the arity of the functions translated before it do not change).
* slice key "write" with start {"with_open": True}: the slice is the BODY of the function's one top-level
  `with open(<names / constants>) as f:` statement (open() itself, i.e. the file system, is not modelled); the statement
  `f.<method>(e)` appends e to the list parameter <stream>; any other use of f is rejected (f is not a name of the slice).
* a top-level slice is not entered into the function table (nothing can call it).
* in a top-level slice, a list comprehension `[elt for v in it]` with one generator, no condition, v a plain name, as the
  whole right-hand side of `x = [...]` (x occurring in neither elt nor it): `x = []; for _cN in it: x.append(elt[v := _cN])`
  with a fresh name _cN (the comprehension variable is local to the comprehension in Python).
* `x.attr = e`, `x[i]...[k].attr = e` for a field of a translated class (`SSetAttr`: e first, then the indices; the
  object and the containers along the path are rebuilt - objects are values).  When x is the loop variable of an enclosing
  `for x in <name>` the store goes THROUGH the loop: the loop is emitted over enumerate(<name>) with a hidden index `_tN[0]`
  and the store as `<name>[index][i]...[k].attr = e` followed by `x = <name>[index]` (the alias the loop variable is in
  Python), provided neither <name> nor x is rebound inside the loop (any other mutation of <name> while it is iterated is
  rejected as before).  By-value reading: the elements of <name> - and the objects stored into - must not be shared with
  another position of <name> or with another variable (for _prepare_coords: one fresh list per map file, one fresh
  GeneticMarker per line; the sealed last marker of a list is the prev_coord of no retained marker).
* in a top-level slice the parameters are the slice's free variables: one may be both rebound and mutated (the final
  values of the parameters are the variables' values at the end of the slice; nothing can call a slice).
* spec["ext_dotted_consts"] = {"np.iinfo(np.int32).max": 2147483647}: the expression, compared by its unparsed text, is
  that integer literal (checked against the running numpy by the harness relation).

Extensions used by C19 / C17 / C10 (third translation-validation pass; all purely additive, off unless asked for):
* slice markers of a top-level slice: start {"if_and_names": [a, b]} (the statement `if a and b:`), {"if_name_is_not_none": v}
  (`if v is not None:`), {"if_body_calls": "np.random.seed"} (the `if` statement, whatever its test, whose body contains the
  statement `np.random.seed(...)`), {"attr_assign": "rng"} (`self.rng = ...`, self = the first parameter); stop {"through_call": f} (up
  to and including the first following top-level statement `f(...)`, f a plain name), {"through_if_name": v} (... the
  first following `if v:` statement), {"through_return": True} (to the end of the function, whose last statement must be
  its only return), {"single": True} (the start statement alone), {"before_assign": v} (up to, not
  including, the first following top-level `v = ...`).
* slice key "click_options": {param: "file_r" | "multi_str"}: the function must carry exactly one decorator
  `@click.option(...)` declaring that parameter (click's naming rule: the name without dashes, else the first name with
  the longest dash prefix, `-` -> `_`, lower case), with `type=click.File("r")` and neither multiple / nargs / is_flag /
  count / default / callback ("file_r": the value is None or ONE open text file), resp. `type=str, multiple=True` and none
  of nargs / is_flag / count / default / callback ("multi_str": a tuple of str, empty when the option is not given).
* spec["with_names"] = True: `with <name> as f: body` = `f = <name>` followed by body, for a context manager whose
  __enter__ returns the object itself (an open file; closing it has no effect the model can see).  Accepted only if f is
  bound nowhere else and read exactly once in the whole function, inside that body, and <name> is not used in the body
  (so one method call - `f.read()` - sees the object, and the by-value reading of the external method is sound).
* spec["dotted_raises"] = {"click.UsageError": "UsageError"}: `raise click.UsageError(...)` raises that kind of the shared
  enum; the module must `import click` (plain import, the name not rebound).
* `set(e)` / `tuple(e)` with one argument (`ESetOf` / `ETupleOf`; the names set / tuple bound nowhere in the module):
  only in a top-level slice that contains no ==, !=, in, not in, .index(), for loop or call of a translated function -
  a set built from a sequence is a value that may reach any variable, and MiniPy's == does not compare sets.
* spec["state_calls"] = {"np.random.seed": "$gen"}: the STATEMENT `np.random.seed(a, ...)` (positional arguments only; the
  root name bound nowhere in the function) has an effect on a piece of global state that the model threads through the
  slice as the list parameter named there: `$gen = <"$s.np.random.seed">($gen, a, ...)`, the Section variable
  `exts_np_random_seed : list val -> res val` on (old state, argument values) - any function of them.
* slice key "self_stores": {"rng": "self_rng"}: in the slice, the store `self.rng = e` (self = the first parameter of the
  method) is the assignment of the slice variable `self_rng`; the class chain is checked as for "self_attrs" (no
  property / __setattr__ / class attribute of that name).
* slice key "obj_attrs": {"snpgts": {"samples": "snpgts_samples"}}: a READ of `snpgts.samples`, snpgts a parameter of the
  function that the slice uses in no other way, is a read of the slice parameter named there (by value).  That the
  attribute is a plain attribute of the objects passed is an assumption of the harness relation (it passes such objects).
* slice key "late_externals": [(file, function)]: like spec["externals"], but the Section variable `ext_<f>` is declared
  in a section opened just before this function (`Section GenLate`), so that the text and the arity of the functions
  translated before it do not change; the function is callable from this and the following functions only.

Extensions used by C12 / C06 / C05 (fourth translation-validation pass; all purely additive, off unless asked for):
* slice markers: start {"first": True} (the first statement of the function that is not its docstring),
  {"if_attr_is_not_none": a} (`if self.<a> is not None:`), {"assign_call": [v, "f"]} (`v = f(...)`, f a dotted name); stop {"to_end": True}
  (to the end of a function that contains no return statement at all).
* slice key "self_state": {"_samp_idx": "self__samp_idx"}: the attribute of self is a VARIABLE of the slice - every read
  and every store of `self._samp_idx` (also a store through a subscript, `self._name_idx[k] = e`) is a read / store of
  that slice variable, which is a parameter whose final value is the attribute's final value.  The class chain is checked
  as for "self_attrs".  By-value reading: the object the attribute holds is shared with no other attribute or variable
  (a dict built by index() itself; a tuple).  After the rewrites of self_state / self_attrs / struct_cols `self` may not
  occur in the slice in any other way.
* slice key "struct_cols": {"variants": {"id": "self_variants_id"}}: `self.variants` is a numpy structured array, of which
  the slice may only read the column `self.variants["id"]` (the slice parameter named there: the list of its elements)
  and the length `len(self.variants)`, which is emitted as `len(self_variants_id)` (numpy: every column of a structured
  array has the length of the array; the harness relation checks this on the objects it passes).
* slice key "raise_state": "$raised": every `raise X(...)` statement of the slice is emitted as `$raised = <kind>; return
  None`, "$raised" a trailing parameter (initially None): the caller of the slice then sees the final values of the slice
  variables AT the raise (run_fun alone discards them with the error).  Sound because nothing calls a slice and a slice
  contains no try statement (rejected), so a raise leaves the slice at once, like a return.  Exceptions raised by
  expressions are Err as before.
* `dict(zip(a, b))` (`EDictZip`; the names dict / zip bound nowhere in the module or the function).
* `x = Counter(e).items()` (`ECountItems`: the (key, count) pairs as a list; Counter imported from collections as for the
  containers): such a name x - whatever it is bound to later - may only be READ as the iterable of a for loop /
  comprehension, as the argument of len(), or inside a raise statement (whose arguments are not translated): a dict view
  supports nothing else that a list supports.
* in a top-level slice, a list comprehension `x = [elt for t in it if c ...]` with one generator whose target is a name or
  a tuple of names, any number of conditions, and x possibly occurring in `it`: `_cN = []; for <fresh targets> in it: if
  c: ...: _cN.append(elt); x = _cN[:]` (the simple form - a name target, no condition, x not in it - is emitted as before).
* `for a, b in e` for an iterable other than enumerate(...): the loop runs over e with a hidden variable, `len(v) != 2`
  raises ValueError, then a = v[0], b = v[1] (the elements must be tuples / lists; other iterables of length 2 are not
  modelled: index_sem reports them).
* `x = A if C else B` as a whole assignment to a name: `if C: x = A else: x = B`.
* in a top-level slice, `a, b, c = map(f, e)` for an untranslated builtin f (spec["ext_builtins"]; the name map bound nowhere):
  exactly Python's unpacking of the lazy map object - `_t = []; for _x in e: _t.append(f(_x)); if len(_t) > 3: raise
  ValueError` then `if len(_t) != 3: raise ValueError; a = _t[0]; ...` (f is applied to at most n + 1 elements, in order).
* slice key "log_calls": {"self.log.warning": "$out"}: the statement `self.log.warning(e)` (one positional argument) appends
  the 1-tuple (e,) to the list parameter "$out" (what is logged is an output, in order with the other outputs).
* slice key "class_attr_reads": ["version"]: an attribute named in "self_attrs" may be a class attribute bound by a plain
  class-level assignment `version = <name or constant>` (a read of self.version then yields the instance's or the class's
  value - whatever the object holds: the slice parameter); properties / methods of that name stay rejected.
* spec["state_calls"] may name a plain function name (`err_msgr`): a callable handed to the function whose calls have an
  effect (logging) or raise.
"""
import ast
import os

from .core import ERR_KINDS


class Untranslatable(Exception):
    pass


def _bad(node, why):
    raise Untranslatable(f"line {getattr(node, 'lineno', '?')}: {why}")


def cstr(s):
    return '"' + s.replace('"', '""') + '"'


def cz(n):
    return f"({n})" if n < 0 else str(n)


def clist(items):
    return "[" + "; ".join(items) + "]"


class ClassInfo:
    def __init__(self, name, cid, fields, getters, state=False, methods=None):
        self.name, self.cid, self.fields, self.getters = name, cid, fields, getters
        self.state = state              # a state class: objects are not constructed by translated code
        self.methods = methods or {}    # state class: method name -> ast.FunctionDef


class Ctx:
    """options shared by the functions of one translation (all off by default)"""
    def __init__(self, spec=None):
        spec = spec or {}
        self.float_div = bool(spec.get("float_div"))
        self.outputs = dict(spec.get("outputs", {}))
        self.ignore_calls = set(spec.get("ignore_calls", []))
        self.method_owner = {}          # translated method name -> class name
        self.text = bool(spec.get("text"))
        self.ext_methods = list(spec.get("ext_methods", []))
        self.ext_builtins = list(spec.get("ext_builtins", []))
        self.ext_dotted = list(spec.get("ext_dotted", []))
        self.float_add = bool(spec.get("float_add"))
        self.exit_calls = set(spec.get("exit_calls", []))
        self.with_open = bool(spec.get("with_open"))
        self.allow_defaults = bool(spec.get("allow_defaults"))
        self.rhs_first = bool(spec.get("rhs_first_stores"))
        self.ext_str = bool(spec.get("ext_str"))
        self.dotted_consts = dict(spec.get("ext_dotted_consts", {}))
        self.counter_ok = False         # set per function: the module imports collections.Counter under that name
        self.set_ok = False             # ... and does not bind the name `set`
        self.tuple_ok = False           # ... nor the name `tuple`
        self.dictzip_ok = False         # ... nor the names `dict` / `zip`
        self.map_ok = False             # ... nor the name `map`
        self.raise_state = None         # set per slice: the stream variable that records a raise (see "raise_state")
        self.with_names = bool(spec.get("with_names"))
        self.dotted_raises = dict(spec.get("dotted_raises", {}))
        self.state_calls = dict(spec.get("state_calls", {}))
        self.plain_imports = set()      # set per function: names bound by a plain `import name` only


def parse_state_class(node, cid, attrs):
    """a class whose objects carry mutable state: only the named attributes are modelled"""
    methods = {}
    for item in node.body:
        if isinstance(item, ast.Expr) and isinstance(item.value, ast.Constant):
            continue
        if not isinstance(item, ast.FunctionDef):
            _bad(item, f"class {node.name}: unsupported member")
        if item.name in ("__eq__", "__ne__", "__hash__", "__getattr__", "__getattribute__", "__setattr__", "__contains__"):
            _bad(item, f"class {node.name} defines {item.name}")
        if item.decorator_list:
            _bad(item, f"class {node.name}.{item.name} is decorated")
        methods[item.name] = item
    if node.bases or node.keywords or node.decorator_list:
        _bad(node, f"class {node.name} has base classes / decorators")
    init = methods.get("__init__")
    if init is None:
        _bad(node, f"class {node.name} has no __init__")
    selfname = init.args.args[0].arg
    set_in_init = {t.attr for st in ast.walk(init) if isinstance(st, ast.Assign) for t in st.targets
                   if isinstance(t, ast.Attribute) and isinstance(t.value, ast.Name) and t.value.id == selfname}
    for a in attrs:
        if a not in set_in_init:
            _bad(init, f"class {node.name}.__init__ does not set self.{a}")
    return ClassInfo(node.name, cid, list(attrs), {}, state=True, methods=methods)


def parse_class(node, cid):
    """__init__(self, p1..pn) storing each parameter in one attribute; getters `return self.attr`."""
    fields, getters = None, {}
    for item in node.body:
        if isinstance(item, ast.Expr) and isinstance(item.value, ast.Constant):
            continue
        if not isinstance(item, ast.FunctionDef):
            _bad(item, f"class {node.name}: unsupported member")
        body = [s for s in item.body
                if not (isinstance(s, ast.Expr) and isinstance(s.value, ast.Constant))]
        args = [a.arg for a in item.args.args]
        if item.name == "__init__":
            params = args[1:]
            stored = {}
            for s in body:
                ok = (isinstance(s, ast.Assign) and len(s.targets) == 1
                      and isinstance(s.targets[0], ast.Attribute)
                      and isinstance(s.targets[0].value, ast.Name) and s.targets[0].value.id == args[0]
                      and isinstance(s.value, ast.Name) and s.value.id in params)
                if not ok:
                    _bad(s, f"class {node.name}.__init__ does more than store its parameters")
                if s.value.id in stored:
                    _bad(s, f"class {node.name}.__init__ stores {s.value.id} twice")
                stored[s.value.id] = s.targets[0].attr
            if set(stored) != set(params) or len(set(stored.values())) != len(params):
                _bad(item, f"class {node.name}.__init__ does not store every parameter once")
            fields = [stored[p] for p in params]
        elif (len(body) == 1 and isinstance(body[0], ast.Return) and isinstance(body[0].value, ast.Attribute)
              and isinstance(body[0].value.value, ast.Name) and body[0].value.value.id == args[0]
              and len(args) == 1):
            getters[item.name] = body[0].value.attr
        else:
            getters[item.name] = None  # present but not a getter: using it is untranslatable
    if node.bases or node.keywords:
        _bad(node, f"class {node.name} has base classes")
    if fields is None:
        _bad(node, f"class {node.name} has no __init__")
    return ClassInfo(node.name, cid, fields, getters)


class FunInfo:
    def __init__(self, name, params, mutated):
        self.name, self.params, self.mutated = name, params, mutated


class FunTranslator:
    def __init__(self, node, classes, funs, strtab=None, ctx=None, objects=None, text=None, writes=None, slice_vars=False):
        self.node, self.classes, self.funs = node, classes, funs
        self.ctx = ctx or Ctx()
        self.text = self.ctx.text if text is None else bool(text)   # string literals by code points in this function
        self.writes = dict(writes or {})     # receiver name -> (method, stream): `receiver.method(e)` appends e to stream
        self.containers = {}                 # name -> "counter" | "set" (see collect_containers)
        self.slice_vars = bool(slice_vars)   # a top-level slice: parameters = free variables (may be rebound and mutated)
        self.raise_state = (ctx.raise_state if ctx is not None and slice_vars else None)
        self.through = {}                    # loop variable -> (iterated name, index expression): stores go through the loop
        self.objects = dict(objects or {})   # name -> state class name (the receiver of method calls)
        a = node.args
        defaults_ok = not a.defaults or (self.ctx.allow_defaults and all(isinstance(d, ast.Constant) for d in a.defaults))
        if a.vararg or a.kwarg or a.kwonlyargs or not defaults_ok or a.posonlyargs or node.decorator_list:
            _bad(node, "unsupported signature")
        self.params = [x.arg for x in a.args]
        self.for_stack = []
        self.locals = []
        self.mutated = set()
        self.tmp = 0
        self.oracles = []
        self.strtab = strtab if strtab is not None else {}

    # ---- names
    def local(self, name, node):
        if name not in self.params and name not in self.locals:
            self.locals.append(name)

    def name(self, node):
        if node.id not in self.params and node.id not in self.locals and node.id not in self.assigned:
            _bad(node, f"name {node.id} is neither a parameter nor a local")
        return node.id

    # ---- expressions
    def getter_cands(self, attr, node, method):
        c = []
        for ci in self.classes.values():
            if method:
                if attr in ci.getters:
                    if ci.getters[attr] is None:
                        _bad(node, f"method {attr} of {ci.name} is not a plain getter")
                    c.append((ci.cid, ci.fields.index(ci.getters[attr])))
            elif attr in ci.fields:
                c.append((ci.cid, ci.fields.index(attr)))
        if not c:
            _bad(node, f"no translated class has {'method' if method else 'attribute'} {attr}")
        return clist(f"({cz(i)}, {j}%nat)" for i, j in c)

    def float_lit(self, node, x):
        from fractions import Fraction
        if x != x or x in (float("inf"), float("-inf")):
            _bad(node, "non-finite float literal")
        fr = Fraction(x)
        return f"(EFloat (Qmake {cz(fr.numerator)} {fr.denominator}%positive))"

    @staticmethod
    def is_float_lit(e):
        if isinstance(e, ast.UnaryOp) and isinstance(e.op, ast.USub):
            e = e.operand
        return isinstance(e, ast.Constant) and isinstance(e.value, float)

    def no_eq_override(self, node):
        for ci in self.classes.values():
            if any(m in ci.getters or m in ci.methods for m in ("__eq__", "__ne__", "__contains__")):
                _bad(node, f"class {ci.name} overrides equality")

    def call_target(self, e):
        """(FunInfo, argument nodes) of a call of a translated / external function or of a translated method"""
        if not isinstance(e, ast.Call):
            return None
        f = e.func
        if isinstance(f, ast.Name) and f.id in self.funs and f.id not in self.ctx.method_owner:
            return self.funs[f.id], list(e.args)
        if isinstance(f, ast.Attribute) and isinstance(f.value, ast.Name) and f.attr in self.ctx.method_owner \
                and self.objects.get(f.value.id) == self.ctx.method_owner[f.attr]:
            return self.funs[f.attr], [f.value] + list(e.args)
        return None

    def expr(self, e):
        if self.ctx.dotted_consts and isinstance(e, ast.Attribute):
            txt = ast.unparse(e)
            if txt in self.ctx.dotted_consts:
                root = txt.split(".")[0].split("(")[0]
                if root in self.params or root in self.assigned:
                    _bad(e, f"{root} is rebound: {txt} is not the declared constant")
                return f"(EInt {cz(int(self.ctx.dotted_consts[txt]))})"
        if isinstance(e, ast.Constant):
            if e.value is None:
                return "ENone"
            if isinstance(e.value, bool):
                return f"(EBool {'true' if e.value else 'false'})"
            if isinstance(e.value, int):
                return f"(EInt {cz(e.value)})"
            if isinstance(e.value, str):
                if self.text:
                    return f"(EText {clist(cz(ord(c)) for c in e.value)})"
                return f"(EStr {cz(self.strtab.setdefault(e.value, 1000 + len(self.strtab)))})"
            if isinstance(e.value, float):
                return self.float_lit(e, e.value)
            _bad(e, f"constant {e.value!r}")
        if isinstance(e, ast.Name):
            return f"(EVar {cstr(self.name(e))})"
        if isinstance(e, ast.BinOp):
            ops = {ast.Add: "Add", ast.Sub: "Sub", ast.Mult: "Mul", ast.FloorDiv: "FloorDiv", ast.Mod: "Mod"}
            if isinstance(e.op, ast.Div) and self.ctx.float_div:
                return f"(ECall {cstr('$truediv')} {clist([self.expr(e.left), self.expr(e.right)])})"
            if isinstance(e.op, ast.Add) and self.ctx.float_add and (self.is_float_lit(e.left) or self.is_float_lit(e.right)):
                return f"(ECall {cstr('$fadd')} {clist([self.expr(e.left), self.expr(e.right)])})"
            if type(e.op) not in ops:
                _bad(e, f"operator {type(e.op).__name__}")
            return f"(EBin {ops[type(e.op)]} {self.expr(e.left)} {self.expr(e.right)})"
        if isinstance(e, ast.UnaryOp):
            if isinstance(e.op, ast.Not):
                return f"(ENot {self.expr(e.operand)})"
            if isinstance(e.op, ast.USub):
                if isinstance(e.operand, ast.Constant) and isinstance(e.operand.value, int) \
                        and not isinstance(e.operand.value, bool):
                    return f"(EInt {cz(-e.operand.value)})"
                if isinstance(e.operand, ast.Constant) and isinstance(e.operand.value, float):
                    return self.float_lit(e, -e.operand.value)
                return f"(ENeg {self.expr(e.operand)})"
            _bad(e, "unary operator")
        if isinstance(e, ast.BoolOp):
            k = "EAnd" if isinstance(e.op, ast.And) else "EOr"
            out = self.expr(e.values[-1])
            for v in reversed(e.values[:-1]):
                out = f"({k} {self.expr(v)} {out})"
            return out
        if isinstance(e, ast.Compare):
            if len(e.ops) != 1:
                _bad(e, "chained comparison")
            ops = {ast.Eq: "CEq", ast.NotEq: "CNe", ast.Lt: "CLt", ast.LtE: "CLe", ast.Gt: "CGt", ast.GtE: "CGe"}
            if isinstance(e.ops[0], (ast.Is, ast.IsNot)):
                c = e.comparators[0]
                if not (isinstance(c, ast.Constant) and c.value is None):
                    _bad(e, "`is` with something other than None")
                self.no_eq_override(e)
                return f"(ECmp {'CEq' if isinstance(e.ops[0], ast.Is) else 'CNe'} {self.expr(e.left)} ENone)"
            if isinstance(e.ops[0], (ast.In, ast.NotIn)):
                self.no_eq_override(e)
                neg = "true" if isinstance(e.ops[0], ast.NotIn) else "false"
                return f"(EIn {neg} {self.expr(e.left)} {self.expr(e.comparators[0])})"
            if type(e.ops[0]) not in ops:
                _bad(e, f"comparison {type(e.ops[0]).__name__}")
            return f"(ECmp {ops[type(e.ops[0])]} {self.expr(e.left)} {self.expr(e.comparators[0])})"
        if isinstance(e, ast.Subscript):
            if isinstance(e.slice, ast.Slice):
                if e.slice.step is not None:
                    _bad(e, "slice with step")
                lo = f"(Some {self.expr(e.slice.lower)})" if e.slice.lower is not None else "None"
                hi = f"(Some {self.expr(e.slice.upper)})" if e.slice.upper is not None else "None"
                return f"(ESlice {self.expr(e.value)} {lo} {hi})"
            return f"(EIndex {self.expr(e.value)} {self.expr(e.slice)})"
        if isinstance(e, ast.JoinedStr):
            if not self.text:
                _bad(e, "f-string outside text mode")
            parts = []
            for v in e.values:
                if isinstance(v, ast.Constant) and isinstance(v.value, str):
                    parts.append(f"(EText {clist(cz(ord(c)) for c in v.value)})")
                elif isinstance(v, ast.FormattedValue) and v.conversion == -1 and v.format_spec is None:
                    parts.append(self.expr(v.value))
                else:
                    _bad(e, "f-string with a conversion or a format spec")
            return f"(EFmt {clist(parts)})"
        if isinstance(e, ast.Tuple):
            return f"(ETuple {clist(self.expr(x) for x in e.elts)})"
        if isinstance(e, ast.List):
            return f"(EList {clist(self.expr(x) for x in e.elts)})"
        if isinstance(e, ast.Dict):
            if any(k is None for k in e.keys):
                _bad(e, "dict literal with ** unpacking")
            return f"(EDict {clist(f'({self.expr(k)}, {self.expr(v)})' for k, v in zip(e.keys, e.values))})"
        if isinstance(e, ast.Attribute):
            return f"(EField {self.expr(e.value)} {self.getter_cands(e.attr, e, False)})"
        if isinstance(e, ast.Call):
            f = e.func
            if (isinstance(f, ast.Attribute) and f.attr == "asarray" and isinstance(f.value, ast.Name)
                    and f.value.id == "np" and len(e.args) == 1 and len(e.keywords) == 1
                    and e.keywords[0].arg == "dtype"):
                dt = e.keywords[0].value
                name = dt.attr if isinstance(dt, ast.Attribute) and isinstance(dt.value, ast.Name) \
                    and dt.value.id == "np" else (dt.id if isinstance(dt, ast.Name) else None)
                ranges = {"int64": (-2**63, 2**63 - 1), "int32": (-2**31, 2**31 - 1), "uint8": (0, 255),
                          "object": (None, None)}
                if name not in ranges:
                    _bad(e, f"np.asarray with dtype {name}")
                lo, hi = ranges[name]
                o = lambda v: "None" if v is None else f"(Some {cz(v)})"
                return f"(EAsArray {o(lo)} {o(hi)} {self.expr(e.args[0])})"
            if e.keywords:
                _bad(e, "keyword arguments")
            if isinstance(f, ast.Name) and f.id in self.ctx.ext_builtins and len(e.args) == 1 \
                    and f.id not in self.params and f.id not in self.assigned:
                return f"(ECall {cstr('$b.' + f.id)} {clist([self.expr(e.args[0])])})"
            if self.dotted(f) in self.ctx.ext_dotted and self.dotted(f).split(".")[0] not in self.params \
                    and self.dotted(f).split(".")[0] not in self.assigned:
                return f"(ECall {cstr('$c.' + self.dotted(f))} {clist(self.expr(x) for x in e.args)})"
            if isinstance(f, ast.Name):
                if f.id == "len" and len(e.args) == 1:
                    return f"(ELen {self.expr(e.args[0])})"
                if f.id == "range" and len(e.args) == 1:
                    return f"(ERange {self.expr(e.args[0])})"
                if f.id == "int" and len(e.args) == 1:
                    if self.text:
                        _bad(e, "int() with strings as text: declare int in ext_builtins (EToInt does not parse text)")
                    return f"(EToInt {self.expr(e.args[0])})"
                if f.id == "abs" and len(e.args) == 1:
                    return f"(EAbs {self.expr(e.args[0])})"
                if f.id == "dict" and len(e.args) == 1 and self.ctx.dictzip_ok and isinstance(e.args[0], ast.Call) \
                        and isinstance(e.args[0].func, ast.Name) and e.args[0].func.id == "zip" \
                        and len(e.args[0].args) == 2 and not e.args[0].keywords \
                        and not any(n in self.params or n in self.assigned for n in ("dict", "zip")):
                    z = e.args[0]
                    return f"(EDictZip {self.expr(z.args[0])} {self.expr(z.args[1])})"
                if f.id in ("set", "tuple") and len(e.args) == 1 and f.id not in self.params \
                        and f.id not in self.assigned and (self.ctx.set_ok if f.id == "set" else self.ctx.tuple_ok):
                    self.check_collection_ctor(e)
                    return f"({'ESetOf' if f.id == 'set' else 'ETupleOf'} {self.expr(e.args[0])})"
                if f.id in self.classes:
                    ci = self.classes[f.id]
                    if ci.state:
                        _bad(e, f"construction of an object of the state class {f.id}")
                    if len(e.args) != len(ci.fields):
                        _bad(e, f"{f.id}() with {len(e.args)} arguments")
                    return f"(ENew {cz(ci.cid)} {clist(self.expr(x) for x in e.args)})"
                if f.id in self.funs and f.id not in self.ctx.method_owner:
                    fi = self.funs[f.id]
                    if fi.mutated:
                        _bad(e, f"call of {f.id}, which mutates a parameter, inside an expression")
                    if len(e.args) != len(fi.params):
                        _bad(e, f"{f.id}() with {len(e.args)} arguments")
                    return f"(ECall {cstr(f.id)} {clist(self.expr(x) for x in e.args)})"
                _bad(e, f"call of {f.id}")
            if isinstance(f, ast.Attribute) and f.attr == "asarray" and isinstance(f.value, ast.Name) \
                    and f.value.id == "np" and len(e.args) == 1:
                # handled below (keywords carry the dtype)
                pass
            tgt = self.call_target(e)
            if tgt is not None:
                fi, args = tgt
                if fi.mutated:
                    _bad(e, f"call of {fi.name}, which mutates a parameter, inside an expression")
                if len(args) != len(fi.params):
                    _bad(e, f"{fi.name}() with {len(args)} arguments")
                return f"(ECall {cstr(fi.name)} {clist(self.expr(x) for x in args)})"
            if isinstance(f, ast.Attribute) and f.attr in self.ctx.method_owner:
                _bad(e, f"call of method {f.attr} on something that is not a declared {self.ctx.method_owner[f.attr]} object")
            if isinstance(f, ast.Attribute) and f.attr in self.ctx.ext_methods \
                    and not any(f.attr in ci.getters or f.attr in ci.methods for ci in self.classes.values()) \
                    and not (isinstance(f.value, ast.Name) and f.value.id in self.objects):
                return f"(ECall {cstr('$m.' + f.attr)} {clist(self.expr(x) for x in [f.value] + list(e.args))})"
            if self.is_counter_items(e):
                return f"(ECountItems {self.expr(f.value.args[0])})"
            if isinstance(f, ast.Attribute) and f.attr == "copy" and not e.args \
                    and not any("copy" in ci.getters or "copy" in ci.methods for ci in self.classes.values()):
                return f"(ECopy {self.expr(f.value)})"
            if isinstance(f, ast.Attribute) and not e.args:
                return f"(EField {self.expr(f.value)} {self.getter_cands(f.attr, e, True)})"
            if isinstance(f, ast.Attribute) and f.attr == "index" and len(e.args) == 1:
                return f"(EIndexOf {self.expr(f.value)} {self.expr(e.args[0])})"
            _bad(e, "call")
        _bad(e, f"expression {type(e).__name__}")

    def is_counter_items(self, e):
        """Counter(<one argument>).items()"""
        f = e.func if isinstance(e, ast.Call) else None
        return (isinstance(f, ast.Attribute) and f.attr == "items" and not e.args and not e.keywords
                and isinstance(f.value, ast.Call) and isinstance(f.value.func, ast.Name) and f.value.func.id == "Counter"
                and len(f.value.args) == 1 and not f.value.keywords and self.ctx.counter_ok
                and "Counter" not in self.params and "Counter" not in self.assigned)

    def check_view_names(self):
        """names bound by `x = Counter(e).items()`: every read of x is the iterable of a for loop, the argument of len(),
        or inside a raise statement; Counter(e).items() occurs nowhere else"""
        views, ok_calls = set(), set()
        for n in ast.walk(self.node):
            if isinstance(n, ast.Assign) and len(n.targets) == 1 and isinstance(n.targets[0], ast.Name) \
                    and self.is_counter_items(n.value):
                views.add(n.targets[0].id)
                ok_calls.add(n.value)
        for n in ast.walk(self.node):
            if isinstance(n, ast.Call) and self.is_counter_items(n) and n not in ok_calls:
                _bad(n, "Counter(e).items() other than as the whole right-hand side of an assignment to a name")
        if not views:
            return
        parent = {}
        for n in ast.walk(self.node):
            for c in ast.iter_child_nodes(n):
                parent[c] = n
        for n in ast.walk(self.node):
            if not (isinstance(n, ast.Name) and n.id in views and isinstance(n.ctx, ast.Load)):
                continue
            pt = parent.get(n)
            if isinstance(pt, ast.For) and pt.iter is n:
                continue
            if isinstance(pt, ast.Call) and isinstance(pt.func, ast.Name) and pt.func.id == "len" and pt.args == [n] \
                    and not pt.keywords and "len" not in self.params and "len" not in self.assigned:
                continue
            up = pt
            while up is not None and not isinstance(up, ast.stmt):
                up = parent.get(up)
            if isinstance(up, ast.Raise):
                continue
            _bad(n, f"{n.id} may hold a dict view (Counter(e).items()): it may only be iterated over or measured with len()")

    def check_collection_ctor(self, e):
        """set(e) / tuple(e): only where the value built can never reach ==, `in`, .index(), a for loop or another
        translated function (MiniPy's == does not compare sets)"""
        if not self.slice_vars:
            _bad(e, "set(e) / tuple(e) outside a top-level slice")
        for n in ast.walk(self.node):
            if isinstance(n, ast.Compare) and any(isinstance(o, (ast.Eq, ast.NotEq, ast.In, ast.NotIn)) for o in n.ops):
                _bad(n, "==, !=, in, not in in a slice that builds a set / tuple from a sequence")
            if isinstance(n, ast.For):
                _bad(n, "for loop in a slice that builds a set / tuple from a sequence")
            if isinstance(n, ast.Call) and ((isinstance(n.func, ast.Attribute) and n.func.attr == "index")
                                            or self.call_target(n) is not None):
                _bad(n, ".index() / call of a translated function in a slice that builds a set / tuple from a sequence")

    # ---- statements
    def lval(self, t, what):
        if isinstance(t, ast.Name):
            self.name(t)
            return f"(LVar {cstr(t.id)})", t.id
        if isinstance(t, ast.Subscript) and isinstance(t.value, ast.Name) and not isinstance(t.slice, ast.Slice):
            self.name(t.value)
            return f"(LIdx {cstr(t.value.id)} {self.expr(t.slice)})", t.value.id
        _bad(t, f"{what}: not a name or name[index]")

    def mark_mutated(self, name, node):
        if name in self.alias_names or name in self.alias_sources:
            _bad(node, f"{name} is mutated but may share its value with another name (it is bound by a for loop or "
                       f"from a name/subscript/attribute, or another name is bound from it)")
        if name in self.params:
            self.mutated.add(self.params.index(name))
        for it in self.iterating:
            if it == name:
                _bad(node, f"{name} is mutated while a for loop iterates over it")

    @staticmethod
    def iter_root(it):
        """the name a for loop iterates over: through enumerate(...), subscripts and attributes"""
        if isinstance(it, ast.Call) and isinstance(it.func, ast.Name) and it.func.id == "enumerate" \
                and len(it.args) == 1 and not it.keywords:
            it = it.args[0]
        while isinstance(it, (ast.Subscript, ast.Attribute)):
            it = it.value
        return it.id if isinstance(it, ast.Name) else None

    @staticmethod
    def value_targets(loop):
        """the names a for loop binds to (parts of) the elements of what it iterates over"""
        t = loop.target
        if isinstance(t, ast.Name):
            return [t.id]
        is_enum = (isinstance(loop.iter, ast.Call) and isinstance(loop.iter.func, ast.Name)
                   and loop.iter.func.id == "enumerate")
        names = [x.id for x in t.elts if isinstance(x, ast.Name)]
        return names[1:] if is_enum else names

    def check_store_into_iterated(self, s, root, path):
        """x[..][K] = e while a for loop iterates over x: the loop variables keep the old elements; accepted only when
        those old elements cannot be observed to differ (see the module docstring)"""
        last = path[-1]
        if not (isinstance(last, ast.Constant) and isinstance(last.value, str)):
            _bad(s, f"{root} is mutated while a for loop iterates over it (last subscript is not a string literal)")
        key = last.value
        outer = next(lp for lp in self.for_stack if self.iter_root(lp.iter) == root)
        stale = set()
        changed = True
        while changed:
            changed = False
            for lp in [n for n in ast.walk(outer) if isinstance(n, ast.For)]:
                if self.iter_root(lp.iter) in stale | {root}:
                    for nm in self.value_targets(lp):
                        if nm not in stale:
                            stale.add(nm)
                            changed = True
        parent = {}
        for n in ast.walk(outer):
            for c in ast.iter_child_nodes(n):
                parent[c] = n
        for n in ast.walk(outer):
            # every store into the iterated value inside the loop nest writes the same string key
            if isinstance(n, ast.Assign):
                for t in n.targets:
                    r = t
                    while isinstance(r, (ast.Subscript, ast.Attribute)):
                        r = r.value
                    if isinstance(r, ast.Name) and r.id == root and isinstance(t, ast.Subscript):
                        sl = t.slice
                        if not (isinstance(sl, ast.Constant) and sl.value == key and isinstance(t.value, ast.Subscript)):
                            _bad(n, f"{root} is mutated in several ways while a for loop iterates over it")
            if not (isinstance(n, ast.Name) and n.id in stale and isinstance(n.ctx, ast.Load)):
                continue
            top = n
            while isinstance(parent.get(top), ast.Subscript) and parent[top].value is top:
                top = parent[top]
            pt = parent.get(top)
            if isinstance(pt, ast.Call) and isinstance(pt.func, ast.Name) and pt.func.id == "enumerate" \
                    and isinstance(parent.get(pt), ast.For) and parent[pt].iter is pt and top is n:
                continue        # for i, y in enumerate(<stale name>)
            if isinstance(pt, ast.For) and pt.iter is top and top is n:
                continue        # for y in <stale name>
            if isinstance(top, ast.Subscript) and isinstance(top.ctx, ast.Load) and isinstance(top.slice, ast.Constant) \
                    and isinstance(top.slice.value, str) and top.slice.value != key:
                continue        # <stale name>[...]["another key"]
            _bad(n, f"{n.id} holds an element of {root}, which is mutated (key {key!r}) inside the loop, and is read "
                    f"in a way that could observe the old value")

    @staticmethod
    def stores_through(loop):
        """does the body of `for x in ...` contain `x[i]...[k].attr = e`?"""
        x = loop.target.id
        for n in ast.walk(loop):
            if isinstance(n, ast.Assign):
                for t in n.targets:
                    if isinstance(t, ast.Attribute):
                        r = t.value
                        while isinstance(r, ast.Subscript):
                            r = r.value
                        if isinstance(r, ast.Name) and r.id == x:
                            return True
        return False

    def call_stmt(self, dst, call):
        """dst = f(args) for a translated f, with write-back of the parameters f mutates."""
        fi, cargs = self.call_target(call)
        if call.keywords or len(cargs) != len(fi.params):
            _bad(call, f"{fi.name}() call shape")
        wbs = []
        for i, a in enumerate(cargs):
            if i in fi.mutated:
                lv, nm = self.lval(a, f"argument {i} of {fi.name} (mutated by it)")
                self.mark_mutated(nm, call)
                wbs.append(f"(Some {lv})")
            else:
                wbs.append("None")
        d = f"(Some {cstr(dst)})" if dst else "None"
        return f"(SCall {d} {cstr(fi.name)} {clist(self.expr(a) for a in cargs)} {clist(wbs)})"

    @staticmethod
    def oracle_bound(e):
        """np.random.randint(<int literal>) -> the literal, else None"""
        if (isinstance(e, ast.Call) and not e.keywords and len(e.args) == 1
                and isinstance(e.args[0], ast.Constant) and isinstance(e.args[0].value, int)
                and not isinstance(e.args[0].value, bool)
                and isinstance(e.func, ast.Attribute) and e.func.attr == "randint"
                and isinstance(e.func.value, ast.Attribute) and e.func.value.attr == "random"
                and isinstance(e.func.value.value, ast.Name) and e.func.value.value.id == "np"):
            return e.args[0].value
        return None

    @staticmethod
    def np_random(e, fn, nargs):
        return (isinstance(e, ast.Call) and not e.keywords and len(e.args) == nargs
                and isinstance(e.func, ast.Attribute) and e.func.attr == fn
                and isinstance(e.func.value, ast.Attribute) and e.func.value.attr == "random"
                and isinstance(e.func.value.value, ast.Name) and e.func.value.value.id == "np")

    def use_oracle(self, stream):
        if stream not in self.oracles:
            self.oracles.append(stream)

    def is_fun_call(self, e):
        tgt = self.call_target(e)
        return tgt is not None and bool(tgt[0].mutated)

    @staticmethod
    def dotted(f):
        parts = []
        while isinstance(f, ast.Attribute):
            parts.append(f.attr)
            f = f.value
        if isinstance(f, ast.Name):
            return ".".join([f.id] + parts[::-1])
        return None

    def fresh(self):
        self.tmp += 1
        n = f"_t{self.tmp}"
        self.locals.append(n)
        return n

    def block(self, stmts):
        out = [self.stmt(s) for s in stmts
               if not (isinstance(s, ast.Expr) and isinstance(s.value, ast.Constant))]
        if not out:
            return "SSkip"
        r = out[-1]
        for s in reversed(out[:-1]):
            r = f"(SSeq {s}\n {r})"
        return r

    def stmt(self, s):
        if isinstance(s, ast.Pass):
            return "SSkip"
        if isinstance(s, ast.Assign):
            if len(s.targets) != 1:
                _bad(s, "multiple assignment targets")
            t = s.targets[0]
            if isinstance(t, ast.Tuple) and all(isinstance(x, ast.Name) for x in t.elts) \
                    and self.call_target(s.value) is not None:
                # a, b = f(...): hoisted; unpacking a result of another length is a ValueError
                tmp = self.fresh()
                fi = self.call_target(s.value)[0]
                call = self.call_stmt(tmp, s.value) if fi.mutated else \
                    f"(SAssign {cstr(tmp)} {self.expr(s.value)})"
                out = [call, f"(SIf (ECmp CNe (ELen (EVar {cstr(tmp)})) (EInt {len(t.elts)})) (SRaise 1) SSkip)"]
                for k, x in enumerate(t.elts):
                    out.append(f"(SAssign {cstr(x.id)} (EIndex (EVar {cstr(tmp)}) (EInt {k})))")
                r = out[-1]
                for st in reversed(out[:-1]):
                    r = f"(SSeq {st}\n {r})"
                return r
            if isinstance(t, ast.Name) and t.id in self.containers:
                return f"(SAssign {cstr(t.id)} {'ECounter' if self.containers[t.id] == 'counter' else 'ESet'})"
            if self.slice_vars and isinstance(t, ast.Tuple) and all(isinstance(x, ast.Name) for x in t.elts) \
                    and len({x.id for x in t.elts}) == len(t.elts) and isinstance(s.value, ast.Call) \
                    and isinstance(s.value.func, ast.Name) and s.value.func.id == "map" and self.ctx.map_ok \
                    and "map" not in self.params and "map" not in self.assigned and len(s.value.args) == 2 \
                    and not s.value.keywords and isinstance(s.value.args[0], ast.Name) \
                    and s.value.args[0].id in self.ctx.ext_builtins:
                # a, b, c = map(f, e): the unpacking of the lazy map object, element by element
                n = len(t.elts)
                tmp, x = self.fresh(), self.fresh()
                it = self.expr(s.value.args[1])
                fx = self.expr(ast.Call(func=s.value.args[0], args=[ast.Name(id=x, ctx=ast.Load(), lineno=s.lineno)],
                                        keywords=[], lineno=s.lineno))
                out = [f"(SAssign {cstr(tmp)} (EList []))",
                       f"(SFor {cstr(x)} {it}\n (SSeq (SAppend (LVar {cstr(tmp)}) {fx})\n"
                       f" (SIf (ECmp CGt (ELen (EVar {cstr(tmp)})) (EInt {n})) (SRaise 1) SSkip)))",
                       f"(SIf (ECmp CNe (ELen (EVar {cstr(tmp)})) (EInt {n})) (SRaise 1) SSkip)"]
                for k, v in enumerate(t.elts):
                    out.append(f"(SAssign {cstr(v.id)} (EIndex (EVar {cstr(tmp)}) (EInt {k})))")
                r = out[-1]
                for st in reversed(out[:-1]):
                    r = f"(SSeq {st}\n {r})"
                return r
            if isinstance(t, ast.Name) and isinstance(s.value, ast.IfExp) and self.slice_vars:
                # x = A if C else B
                v = s.value
                if self.is_fun_call(v.test) or self.is_fun_call(v.body) or self.is_fun_call(v.orelse):
                    _bad(s, "conditional expression with a call that mutates")
                return (f"(SIf {self.expr(v.test)}\n (SAssign {cstr(t.id)} {self.expr(v.body)})\n"
                        f" (SAssign {cstr(t.id)} {self.expr(v.orelse)}))")
            if isinstance(t, ast.Name):
                if self.np_random(s.value, "choice", 1):
                    self.use_oracle("$choices")
                    return f"(SChoice {cstr(t.id)} {self.expr(s.value.args[0])})"
                if self.is_fun_call(s.value):
                    return self.call_stmt(t.id, s.value)
                ob = self.oracle_bound(s.value)
                if ob is not None:
                    self.use_oracle("$draws")
                    return f"(SOracle {cstr(t.id)} {cz(ob)})"
                return f"(SAssign {cstr(t.id)} {self.expr(s.value)})"
            if isinstance(t, ast.Subscript) and isinstance(t.value, ast.Name) and not isinstance(t.slice, ast.Slice):
                self.name(t.value)
                self.mark_mutated(t.value.id, s)
                if self.ctx.rhs_first:
                    return f"(SSetPath {cstr(t.value.id)} {clist([self.expr(t.slice)])} {self.expr(s.value)})"
                return f"(SSetIdx {cstr(t.value.id)} {self.expr(t.slice)} {self.expr(s.value)})"
            if isinstance(t, ast.Subscript) and isinstance(t.value, ast.Subscript):
                # x[i1]...[in] = e
                path, root = [], t
                while isinstance(root, ast.Subscript):
                    if isinstance(root.slice, ast.Slice):
                        _bad(s, "store through a slice")
                    path.append(root.slice)
                    root = root.value
                if not isinstance(root, ast.Name):
                    _bad(s, "store through subscripts of something that is not a name")
                path.reverse()
                self.name(root)
                if root.id in self.iterating:
                    self.check_store_into_iterated(s, root.id, path)
                    saved = self.iterating
                    self.iterating = [x for x in saved if x != root.id]
                    try:
                        self.mark_mutated(root.id, s)
                    finally:
                        self.iterating = saved
                else:
                    self.mark_mutated(root.id, s)
                return f"(SSetPath {cstr(root.id)} {clist(self.expr(i) for i in path)} {self.expr(s.value)})"
            if isinstance(t, ast.Attribute) and isinstance(t.value, ast.Name) and t.value.id in self.objects \
                    and self.params and t.value.id == self.params[0]:
                # self.<attr> = e: the object is rebuilt with that attribute replaced.  Only as the last top-level
                # statement of the method (nothing can then observe the sharing of e's value with another name)
                ci = self.classes[self.objects[t.value.id]]
                if t.attr not in ci.fields:
                    _bad(s, f"attribute {t.attr} of {ci.name} is not a declared state attribute")
                if s is not self.final_stmt:
                    _bad(s, f"self.{t.attr} is rebound before the end of the method")
                obj = t.value.id
                flds = [self.expr(s.value) if a == t.attr else f"(EField (EVar {cstr(obj)}) [({cz(ci.cid)}, {i}%nat)])"
                        for i, a in enumerate(ci.fields)]
                self.mutated.add(0)
                return f"(SAssign {cstr(obj)} (ENew {cz(ci.cid)} {clist(flds)}))"
            if isinstance(t, ast.Attribute):
                # x[i]...[k].attr = e for a field of a translated class
                path, root = [], t.value
                while isinstance(root, ast.Subscript):
                    if isinstance(root.slice, ast.Slice):
                        _bad(s, "attribute store through a slice")
                    path.append(root.slice)
                    root = root.value
                if not isinstance(root, ast.Name) or root.id in self.objects:
                    _bad(s, "attribute store on something that is not name[i]...[k]")
                path.reverse()
                self.name(root)
                cands = self.getter_cands(t.attr, t, False)
                idx = [self.expr(i) for i in path]
                rhs = self.expr(s.value)
                if root.id in self.through:
                    nm, ix = self.through[root.id]
                    saved = self.iterating
                    self.iterating = [x for x in saved if x != nm]
                    try:
                        self.mark_mutated(nm, s)
                    finally:
                        self.iterating = saved
                    return (f"(SSeq (SSetAttr {cstr(nm)} {clist([ix] + idx)} {cands} {rhs})\n"
                            f" (SAssign {cstr(root.id)} (EIndex (EVar {cstr(nm)}) {ix})))")
                self.mark_mutated(root.id, s)
                return f"(SSetAttr {cstr(root.id)} {clist(idx)} {cands} {rhs})"
            _bad(s, "assignment target")
        if isinstance(s, ast.AugAssign) and isinstance(s.target, ast.Subscript) and isinstance(s.target.value, ast.Name) \
                and isinstance(s.target.slice, (ast.Name, ast.Constant)):
            # x[k] op= e with k a name or a constant: x[k] = x[k] op e (reading k twice has no effect)
            x = s.target.value.id
            self.name(s.target.value)
            self.mark_mutated(x, s)
            load = ast.Subscript(value=ast.Name(id=x, ctx=ast.Load(), lineno=s.lineno), slice=s.target.slice,
                                 ctx=ast.Load(), lineno=s.lineno)
            fake = ast.BinOp(left=load, op=s.op, right=s.value, lineno=s.lineno)
            return f"(SSetPath {cstr(x)} {clist([self.expr(s.target.slice)])} {self.expr(fake)})"
        if isinstance(s, ast.AugAssign):
            if not isinstance(s.target, ast.Name):
                _bad(s, "augmented assignment target")
            fake = ast.BinOp(left=ast.Name(id=s.target.id, ctx=ast.Load(), lineno=s.lineno), op=s.op, right=s.value,
                             lineno=s.lineno)
            return f"(SAssign {cstr(s.target.id)} {self.expr(fake)})"
        if isinstance(s, ast.Expr):
            v = s.value
            if isinstance(v, ast.Call) and self.dotted(v.func) in self.ctx.ignore_calls:
                return "SSkip"
            if isinstance(v, ast.Call) and self.dotted(v.func) in self.ctx.exit_calls:
                return f"(SRaise {ERR_KINDS['SystemExit']})"
            if isinstance(v, ast.Call) and self.dotted(v.func) in self.ctx.state_calls:
                d = self.dotted(v.func)
                root, stream = d.split(".")[0], self.ctx.state_calls[d]
                if v.keywords or root in self.params or root in self.assigned:
                    _bad(s, f"{d}(): keyword arguments / {root} is rebound")
                self.use_oracle(stream)
                args = [f"(EVar {cstr(stream)})"] + [self.expr(x) for x in v.args]
                return f"(SAssign {cstr(stream)} (ECall {cstr('$s.' + d)} {clist(args)}))"
            if isinstance(v, ast.Call) and isinstance(v.func, ast.Name) and v.func.id in self.ctx.outputs:
                o = self.ctx.outputs[v.func.id]
                if v.keywords or any(not isinstance(a, ast.Name) for i, a in enumerate(v.args) if i not in o["args"]):
                    _bad(s, f"{v.func.id}(): the arguments that are not recorded must be plain names")
                if max(o["args"]) >= len(v.args):
                    _bad(s, f"{v.func.id}() call shape")
                self.use_oracle(o["stream"])
                return f"(SAppend (LVar {cstr(o['stream'])}) (ETuple {clist(self.expr(v.args[i]) for i in o['args'])}))"
            if isinstance(v, ast.Call) and isinstance(v.func, ast.Attribute) and isinstance(v.func.value, ast.Name) \
                    and v.func.value.id in self.writes and v.func.value.id not in self.params \
                    and v.func.value.id not in self.assigned:
                meth, stream = self.writes[v.func.value.id]
                if v.func.attr != meth or len(v.args) != 1 or v.keywords:
                    _bad(s, f"{v.func.value.id}: only {v.func.value.id}.{meth}(e) is translated")
                self.use_oracle(stream)
                return f"(SAppend (LVar {cstr(stream)}) {self.expr(v.args[0])})"
            if isinstance(v, ast.Call) and isinstance(v.func, ast.Attribute) and v.func.attr == "add" \
                    and isinstance(v.func.value, ast.Name) and self.containers.get(v.func.value.id) == "set" \
                    and len(v.args) == 1 and not v.keywords:
                self.mark_mutated(v.func.value.id, s)
                return f"(SSetAdd {cstr(v.func.value.id)} {self.expr(v.args[0])})"
            if isinstance(v, ast.Call) and isinstance(v.func, ast.Attribute) and v.func.attr == "append" \
                    and len(v.args) == 1 and not v.keywords:
                lv, nm = self.lval(v.func.value, "append target")
                self.mark_mutated(nm, s)
                return f"(SAppend {lv} {self.expr(v.args[0])})"
            if self.np_random(v, "shuffle", 1):
                lv, nm = self.lval(v.args[0], "shuffle target")
                self.mark_mutated(nm, s)
                self.use_oracle("$shuffles")
                return f"(SShuffle {lv})"
            if isinstance(v, ast.Call) and isinstance(v.func, ast.Attribute) and v.func.attr == "extend" \
                    and len(v.args) == 1 and not v.keywords:
                lv, nm = self.lval(v.func.value, "extend target")
                self.mark_mutated(nm, s)
                return f"(SExtend {lv} {self.expr(v.args[0])})"
            if self.is_fun_call(v):
                return self.call_stmt(None, v)
            return f"(SExpr {self.expr(v)})"
        if isinstance(s, ast.If):
            if self.is_fun_call(s.test):
                t = self.fresh()
                pre = self.call_stmt(t, s.test)
                return f"(SSeq {pre}\n (SIf (EVar {cstr(t)}) {self.block(s.body)} {self.block(s.orelse)}))"
            return f"(SIf {self.expr(s.test)}\n {self.block(s.body)}\n {self.block(s.orelse)})"
        if isinstance(s, ast.While):
            if s.orelse:
                _bad(s, "while-else")
            return f"(SWhile {self.expr(s.test)}\n {self.block(s.body)})"
        if isinstance(s, ast.For) and isinstance(s.target, ast.Tuple):
            # for i, x in enumerate(e): iterate over the (index, element) pairs and unpack
            t = s.target
            if (self.slice_vars and not s.orelse and len(t.elts) == 2 and all(isinstance(x, ast.Name) for x in t.elts)
                    and t.elts[0].id != t.elts[1].id
                    and not (isinstance(s.iter, ast.Call) and isinstance(s.iter.func, ast.Name)
                             and s.iter.func.id == "enumerate")):
                # for a, b in e: unpack every element (ValueError unless it has exactly two items)
                tmp = self.fresh()
                it = self.expr(s.iter)
                self.iterating.append(self.iter_root(s.iter))
                self.for_stack.append(s)
                body = self.block(s.body)
                self.for_stack.pop()
                self.iterating.pop()
                unpack = [f"(SAssign {cstr(x.id)} (EIndex (EVar {cstr(tmp)}) (EInt {k})))" for k, x in enumerate(t.elts)]
                return (f"(SFor {cstr(tmp)} {it}\n (SSeq (SIf (ECmp CNe (ELen (EVar {cstr(tmp)})) (EInt 2)) (SRaise 1) SSkip)\n"
                        f" (SSeq {unpack[0]} (SSeq {unpack[1]}\n {body}))))")
            ok = (not s.orelse and len(t.elts) == 2 and all(isinstance(x, ast.Name) for x in t.elts)
                  and t.elts[0].id != t.elts[1].id
                  and isinstance(s.iter, ast.Call) and isinstance(s.iter.func, ast.Name) and s.iter.func.id == "enumerate"
                  and len(s.iter.args) == 1 and not s.iter.keywords
                  and "enumerate" not in self.params and "enumerate" not in self.assigned)
            if not ok:
                _bad(s, "for-else / loop target that is not a name or `i, x in enumerate(e)`")
            tmp = self.fresh()
            it = f"(EEnumerate {self.expr(s.iter.args[0])})"
            self.iterating.append(self.iter_root(s.iter))
            self.for_stack.append(s)
            body = self.block(s.body)
            self.for_stack.pop()
            self.iterating.pop()
            unpack = [f"(SAssign {cstr(x.id)} (EIndex (EVar {cstr(tmp)}) (EInt {k})))" for k, x in enumerate(t.elts)]
            return f"(SFor {cstr(tmp)} {it}\n (SSeq {unpack[0]} (SSeq {unpack[1]}\n {body})))"
        if isinstance(s, ast.For) and isinstance(s.target, ast.Name) and not s.orelse and self.stores_through(s):
            # for x in NAME with `x[..].attr = e` in the body: iterate over enumerate(NAME), stores go to NAME[index]
            x = s.target.id
            if not isinstance(s.iter, ast.Name):
                _bad(s, f"{x}[..].attr is stored into, and the loop does not iterate over a plain name")
            nm = s.iter.id
            self.name(s.iter)
            for n in ast.walk(s):
                if isinstance(n, ast.Name) and n.id in (nm, x) and not isinstance(n.ctx, ast.Load) and n is not s.target:
                    _bad(n, f"{n.id} is rebound inside a loop whose variable is stored into")
                if isinstance(n, ast.For) and n is not s and self.iter_root(n.iter) in (nm, x) and self.stores_through(n):
                    _bad(n, "nested loops with stores through the loop variable")
            if x in self.through or x == nm:
                _bad(s, "nested loops with stores through the same loop variable")
            tmp = self.fresh()
            ix = f"(EIndex (EVar {cstr(tmp)}) (EInt 0))"
            it = f"(EEnumerate {self.expr(s.iter)})"
            self.through[x] = (nm, ix)
            self.iterating.append(nm)
            self.for_stack.append(s)
            body = self.block(s.body)
            self.for_stack.pop()
            self.iterating.pop()
            del self.through[x]
            return f"(SFor {cstr(tmp)} {it}\n (SSeq (SAssign {cstr(x)} (EIndex (EVar {cstr(tmp)}) (EInt 1)))\n {body}))"
        if isinstance(s, ast.For):
            if s.orelse or not isinstance(s.target, ast.Name):
                _bad(s, "for-else / non-name loop target")
            it = self.expr(s.iter)
            root = s.iter
            while isinstance(root, (ast.Subscript, ast.Attribute)):
                root = root.value
            self.iterating.append(root.id if isinstance(root, ast.Name) else None)
            self.for_stack.append(s)
            body = self.block(s.body)
            self.for_stack.pop()
            self.iterating.pop()
            return f"(SFor {cstr(s.target.id)} {it}\n {body})"
        if isinstance(s, ast.With) and self.ctx.with_names and len(s.items) == 1 \
                and isinstance(s.items[0].context_expr, ast.Name) and isinstance(s.items[0].optional_vars, ast.Name):
            # with <name> as f: body  =  f = <name>; body   (an open file: __enter__ returns the object itself)
            src, f = s.items[0].context_expr.id, s.items[0].optional_vars.id
            self.name(s.items[0].context_expr)
            binds = [n for n in ast.walk(self.node) if isinstance(n, ast.Name) and n.id == f
                     and not isinstance(n.ctx, ast.Load)]
            loads = [n for n in ast.walk(self.node) if isinstance(n, ast.Name) and n.id == f and isinstance(n.ctx, ast.Load)]
            inside = [n for st in s.body for n in ast.walk(st) if isinstance(n, ast.Name)]
            if f in self.params or f == src or len(binds) != 1 or len(loads) != 1 \
                    or not any(n is loads[0] for n in inside) or any(n.id == src for n in inside):
                _bad(s, f"with {src} as {f}: {f} must be bound only here and read exactly once, inside the body, "
                        f"and {src} may not be used in the body")
            return f"(SSeq (SAssign {cstr(f)} (EVar {cstr(src)}))\n {self.block(s.body)})"
        if isinstance(s, ast.With):
            ok = (self.ctx.with_open and len(s.items) == 1 and isinstance(s.items[0].optional_vars, ast.Name)
                  and isinstance(s.items[0].context_expr, ast.Call) and isinstance(s.items[0].context_expr.func, ast.Name)
                  and s.items[0].context_expr.func.id == "open" and "open" in self.ctx.ext_dotted
                  and "open" not in self.params and "open" not in self.assigned)
            if not ok:
                _bad(s, "with statement other than `with open(...) as f:`")
            v = s.items[0].optional_vars.id
            return f"(SSeq (SAssign {cstr(v)} {self.expr(s.items[0].context_expr)})\n {self.block(s.body)})"
        if isinstance(s, ast.Assert):
            if s.msg is not None or self.is_fun_call(s.test):
                _bad(s, "assert with a message / with a call that mutates")
            return f"(SIf {self.expr(s.test)} SSkip (SRaise {ERR_KINDS['AssertionError']}))"
        if isinstance(s, ast.Return):
            if s.value is None:
                return "(SReturn ENone)"
            if self.is_fun_call(s.value):
                t = self.fresh()
                return f"(SSeq {self.call_stmt(t, s.value)} (SReturn (EVar {cstr(t)})))"
            return f"(SReturn {self.expr(s.value)})"
        if isinstance(s, ast.Break):
            return "SBreak"
        if isinstance(s, ast.Continue):
            return "SContinue"
        if isinstance(s, ast.Raise):
            exc = s.exc
            if isinstance(exc, ast.Call):
                exc = exc.func
            if isinstance(exc, ast.Attribute) and self.dotted(exc) in self.ctx.dotted_raises and s.cause is None:
                d = self.dotted(exc)
                root = d.split(".")[0]
                if root in self.params or root in self.assigned or root not in self.ctx.plain_imports:
                    _bad(s, f"raise {d}: {root} is not (only) the module imported by `import {root}`")
                return f"(SRaise {ERR_KINDS[self.ctx.dotted_raises[d]]})"
            if not isinstance(exc, ast.Name) or exc.id not in ERR_KINDS:
                _bad(s, "raise of an unknown exception class")
            if self.raise_state:
                if s.cause is not None or exc.id in self.params or exc.id in self.assigned:
                    _bad(s, "raise ... from / a rebound exception class in a slice that records its raises")
                self.use_oracle(self.raise_state)
                return f"(SSeq (SAssign {cstr(self.raise_state)} (EInt {ERR_KINDS[exc.id]})) (SReturn ENone))"
            return f"(SRaise {ERR_KINDS[exc.id]})"
        _bad(s, f"statement {type(s).__name__}")

    def collect_assigned(self):
        names = []
        for n in ast.walk(self.node):
            t = None
            if isinstance(n, ast.Assign) and len(n.targets) == 1 and isinstance(n.targets[0], ast.Name):
                t = n.targets[0].id
            elif isinstance(n, ast.AugAssign) and isinstance(n.target, ast.Name):
                t = n.target.id
            elif isinstance(n, ast.For) and isinstance(n.target, ast.Name):
                t = n.target.id
            elif isinstance(n, ast.With) and (self.ctx.with_open or self.ctx.with_names):
                for it in n.items:
                    if isinstance(it.optional_vars, ast.Name):
                        t = it.optional_vars.id
            elif isinstance(n, (ast.FunctionDef, ast.Lambda, ast.ListComp, ast.GeneratorExp, ast.DictComp,
                                ast.SetComp, ast.Global, ast.Nonlocal, ast.With, ast.Try)) and n is not self.node:
                _bad(n, f"{type(n).__name__} inside a translated function")
            if isinstance(n, ast.For) and isinstance(n.target, ast.Tuple):
                for x in n.target.elts:
                    if isinstance(x, ast.Name):
                        if x.id in self.params:
                            self.assigned_params.add(x.id)
                        elif x.id not in names:
                            names.append(x.id)
            if isinstance(n, ast.Assign) and len(n.targets) == 1 and isinstance(n.targets[0], ast.Tuple):
                for x in n.targets[0].elts:
                    if isinstance(x, ast.Name) and x.id not in names and x.id not in self.params:
                        names.append(x.id)
            if t and t in self.params:
                self.assigned_params.add(t)
            if t and t not in names and t not in self.params:
                names.append(t)
        return names

    def container_kind(self, v):
        if isinstance(v, ast.Call) and isinstance(v.func, ast.Name) and not v.args and not v.keywords \
                and v.func.id not in self.params and v.func.id not in self.assigned:
            if v.func.id == "Counter" and self.ctx.counter_ok:
                return "counter"
            if v.func.id == "set" and self.ctx.set_ok:
                return "set"
        return None

    def collect_containers(self):
        """names bound (once) by `x = Counter()` / `x = set()`; every other occurrence must be x[k] (Counter), `k in x`,
        `k not in x` or the statement `x.add(e)` (set)"""
        kinds = {}
        for n in ast.walk(self.node):
            if isinstance(n, ast.Assign) and len(n.targets) == 1 and isinstance(n.targets[0], ast.Name) \
                    and self.container_kind(n.value):
                if n.targets[0].id in kinds:
                    _bad(n, f"{n.targets[0].id} is bound to a Counter / set twice")
                kinds[n.targets[0].id] = self.container_kind(n.value)
        if not kinds:
            return {}
        parent = {}
        for n in ast.walk(self.node):
            for c in ast.iter_child_nodes(n):
                parent[c] = n
        for nm, kind in kinds.items():
            if nm in self.params:
                _bad(self.node, f"{nm} is a parameter and is rebound to a Counter / set")
            binds = 0
            for n in ast.walk(self.node):
                if not (isinstance(n, ast.Name) and n.id == nm):
                    continue
                pt = parent.get(n)
                if not isinstance(n.ctx, ast.Load):
                    if not (isinstance(n.ctx, ast.Store) and isinstance(pt, ast.Assign) and pt.targets == [n]
                            and self.container_kind(pt.value) == kind):
                        _bad(n, f"{nm} (a Counter / set) is bound in another way")
                    binds += 1
                    continue
                ok = False
                if kind == "counter" and isinstance(pt, ast.Subscript) and pt.value is n \
                        and not isinstance(pt.slice, ast.Slice) and not isinstance(pt.ctx, ast.Del):
                    ok = True
                elif kind == "set" and isinstance(pt, ast.Compare) and len(pt.ops) == 1 \
                        and isinstance(pt.ops[0], (ast.In, ast.NotIn)) and pt.comparators[0] is n:
                    ok = True
                elif kind == "set" and isinstance(pt, ast.Attribute) and pt.attr == "add" and pt.value is n \
                        and isinstance(parent.get(pt), ast.Call) and parent[pt].func is pt \
                        and isinstance(parent.get(parent[pt]), ast.Expr):
                    ok = True
                if not ok:
                    _bad(n, f"{nm} is a {kind}: only x[k] (Counter) / `k in x`, x.add(e) (set) are translated")
            if binds != 1:
                _bad(self.node, f"{nm} (a Counter / set) is not bound exactly once")
        return kinds

    def collect_aliases(self):
        al, src = set(), set()

        def root(e):
            while isinstance(e, (ast.Subscript, ast.Attribute)):
                e = e.value
            return e.id if isinstance(e, ast.Name) else None

        for n in ast.walk(self.node):
            if isinstance(n, ast.For) and isinstance(n.target, ast.Name):
                al.add(n.target.id)
            elif isinstance(n, ast.For) and isinstance(n.target, ast.Tuple):
                for x in n.target.elts:
                    if isinstance(x, ast.Name):
                        al.add(x.id)
            elif isinstance(n, ast.Assign) and len(n.targets) == 1 and isinstance(n.targets[0], ast.Name) \
                    and isinstance(n.value, (ast.Subscript, ast.Name, ast.Attribute)):
                if isinstance(n.value, ast.Subscript) and isinstance(n.value.slice, ast.Slice):
                    continue  # a slice is a fresh list
                al.add(n.targets[0].id)
                if root(n.value):
                    src.add(root(n.value))
        self.alias_sources = src
        return al

    def run(self):
        self.alias_names = self.collect_aliases()
        self.assigned_params = set()
        self.assigned = self.collect_assigned()
        self.containers = self.collect_containers()
        self.check_view_names()
        self.locals = list(self.assigned)
        self.iterating = []
        real = [st for st in self.node.body if not (isinstance(st, ast.Expr) and isinstance(st.value, ast.Constant))]
        self.final_stmt = real[-1] if real else None
        body = self.block(self.node.body)
        for stream in self.oracles:
            # each recorded draw stream is an extra, mutated, trailing parameter
            self.params = self.params + [stream]
            self.mutated.add(len(self.params) - 1)
        # a parameter that is both rebound and mutated in place has no by-value reading
        for i in list(self.mutated):
            if self.params[i] in self.assigned_params and not self.slice_vars:
                _bad(self.node, f"parameter {self.params[i]} is both rebound and mutated")
        text = (f"Definition src_{self.node.name} : fundef :=\n  mkfun {clist(cstr(p) for p in self.params)} "
                f"{clist(cstr(x) for x in self.locals)}\n {body}.\n")
        return text, FunInfo(self.node.name, self.params, self.mutated)


def slice_function(fn, sl):
    """A statement slice of `fn` as a synthetic function.

    sl = {"name": new name, "loop_target": the For loop (anywhere in fn) whose target is this name,
          "from_assign": the slice starts at the first statement of that loop's body assigning this name,
          "until_append_to": and ends before the statement `<this name>.append(...)`,
          "params": parameter names of the synthetic function, "result": name returned at the end}"""
    loops = [n for n in ast.walk(fn) if isinstance(n, ast.For) and isinstance(n.target, ast.Name)
             and n.target.id == sl["loop_target"]]
    if len(loops) != 1:
        _bad(fn, f"{fn.name}: no unique `for {sl['loop_target']} in ...` loop")
    body = loops[0].body
    start = [i for i, st in enumerate(body) if isinstance(st, ast.Assign) and len(st.targets) == 1
             and isinstance(st.targets[0], ast.Name) and st.targets[0].id == sl["from_assign"]]
    stop = [i for i, st in enumerate(body) if isinstance(st, ast.Expr) and isinstance(st.value, ast.Call)
            and isinstance(st.value.func, ast.Attribute) and st.value.func.attr == "append"
            and isinstance(st.value.func.value, ast.Name) and st.value.func.value.id == sl["until_append_to"]]
    if not start or len(stop) != 1 or stop[0] <= start[0]:
        _bad(loops[0], f"{fn.name}: slice markers not found")
    stmts = body[start[0]:stop[0]]
    # whatever follows the slice inside the loop body must be the append alone
    if stop[0] != len(body) - 1:
        _bad(body[stop[0]], f"{fn.name}: statements after `{sl['until_append_to']}.append(...)` in the loop body")
    ret = ast.Return(value=ast.Name(id=sl["result"], ctx=ast.Load(), lineno=stmts[-1].lineno), lineno=stmts[-1].lineno)
    args = ast.arguments(posonlyargs=[], args=[ast.arg(arg=p) for p in sl["params"]], vararg=None, kwonlyargs=[],
                         kw_defaults=[], kwarg=None, defaults=[])
    return ast.FunctionDef(name=sl["name"], args=args, body=list(stmts) + [ret], decorator_list=[], lineno=fn.lineno)


def slice_while(fn, sl):
    """`<v> = ...` immediately followed by `while <v> is not None:` at the top level of `fn`, as a synthetic function.

    sl = {"name": new name, "while_var": v, "params": parameter names, "objects": {name: state class}}.
    Every name in "objects" must be bound exactly once in `fn`, by `name = Class(...)`."""
    v = sl["while_var"]

    def is_loop(st):
        t = st.test if isinstance(st, ast.While) else None
        return (t is not None and isinstance(t, ast.Compare) and len(t.ops) == 1 and isinstance(t.ops[0], ast.IsNot)
                and isinstance(t.left, ast.Name) and t.left.id == v and isinstance(t.comparators[0], ast.Constant)
                and t.comparators[0].value is None)

    idx = [i for i, st in enumerate(fn.body) if is_loop(st)]
    if len(idx) != 1 or idx[0] == 0 or sum(1 for n in ast.walk(fn) if isinstance(n, ast.While) and is_loop(n)) != 1:
        _bad(fn, f"{fn.name}: no unique top-level `while {v} is not None:` loop")
    first = fn.body[idx[0] - 1]
    if not (isinstance(first, ast.Assign) and len(first.targets) == 1 and isinstance(first.targets[0], ast.Name)
            and first.targets[0].id == v):
        _bad(first, f"{fn.name}: the statement before the loop does not assign {v}")
    for name, cls in sl.get("objects", {}).items():
        binds = []
        for n in ast.walk(fn):
            tg = []
            if isinstance(n, ast.Assign):
                tg = n.targets
            elif isinstance(n, (ast.AugAssign, ast.AnnAssign, ast.For)):
                tg = [n.target]
            elif isinstance(n, ast.With):
                tg = [i.optional_vars for i in n.items if i.optional_vars is not None]
            elif isinstance(n, ast.NamedExpr):
                tg = [n.target]
            for t in tg:
                for x in ast.walk(t):
                    if isinstance(x, ast.Name) and x.id == name:
                        binds.append(n)
        ok = (len(binds) == 1 and isinstance(binds[0], ast.Assign) and len(binds[0].targets) == 1
              and isinstance(binds[0].targets[0], ast.Name) and isinstance(binds[0].value, ast.Call)
              and isinstance(binds[0].value.func, ast.Name) and binds[0].value.func.id == cls
              and name not in [a.arg for a in fn.args.args])
        if not ok:
            _bad(fn, f"{fn.name}: {name} is not bound exactly once, by {name} = {cls}(...)")
    args = ast.arguments(posonlyargs=[], args=[ast.arg(arg=p) for p in sl["params"]], vararg=None, kwonlyargs=[],
                         kw_defaults=[], kwarg=None, defaults=[])
    return ast.FunctionDef(name=sl["name"], args=args, body=[first, fn.body[idx[0]]], decorator_list=[],
                           lineno=fn.lineno)


def slice_top(fn, sl):
    """Consecutive top-level statements of `fn` as a synthetic function (see the module docstring, "top-level statement
    slice").  Returns (FunctionDef, writes) where writes maps the name bound by a stripped `with open(...) as f` to the
    (method, stream) its calls are translated to."""
    import copy

    body = list(fn.body)
    a, b = sl["start"], sl["stop"]

    def is_start(st):
        if "assign" in a:
            return (isinstance(st, ast.Assign) and len(st.targets) == 1 and isinstance(st.targets[0], ast.Name)
                    and st.targets[0].id == a["assign"])
        if "if_name" in a:
            return isinstance(st, ast.If) and isinstance(st.test, ast.Name) and st.test.id == a["if_name"]
        if a.get("with_open"):
            return isinstance(st, ast.With)
        if "if_and_names" in a:
            return (isinstance(st, ast.If) and isinstance(st.test, ast.BoolOp) and isinstance(st.test.op, ast.And)
                    and [v.id if isinstance(v, ast.Name) else None for v in st.test.values] == list(a["if_and_names"]))
        if "if_name_is_not_none" in a:
            t = st.test if isinstance(st, ast.If) else None
            return (t is not None and isinstance(t, ast.Compare) and len(t.ops) == 1 and isinstance(t.ops[0], ast.IsNot)
                    and isinstance(t.left, ast.Name) and t.left.id == a["if_name_is_not_none"]
                    and isinstance(t.comparators[0], ast.Constant) and t.comparators[0].value is None)
        if "if_body_calls" in a:
            return isinstance(st, ast.If) and any(
                isinstance(x, ast.Expr) and isinstance(x.value, ast.Call)
                and FunTranslator.dotted(x.value.func) == a["if_body_calls"] for x in st.body)
        if "attr_assign" in a:
            return (isinstance(st, ast.Assign) and len(st.targets) == 1 and isinstance(st.targets[0], ast.Attribute)
                    and isinstance(st.targets[0].value, ast.Name) and bool(fn.args.args)
                    and st.targets[0].value.id == fn.args.args[0].arg and st.targets[0].attr == a["attr_assign"])
        if a.get("first"):
            real = [x for x in body if not (isinstance(x, ast.Expr) and isinstance(x.value, ast.Constant))]
            return bool(real) and st is real[0]
        if "if_attr_is_not_none" in a:
            t = st.test if isinstance(st, ast.If) else None
            return (t is not None and isinstance(t, ast.Compare) and len(t.ops) == 1 and isinstance(t.ops[0], ast.IsNot)
                    and isinstance(t.left, ast.Attribute) and isinstance(t.left.value, ast.Name) and bool(fn.args.args)
                    and t.left.value.id == fn.args.args[0].arg and t.left.attr == a["if_attr_is_not_none"]
                    and isinstance(t.comparators[0], ast.Constant) and t.comparators[0].value is None)
        if "assign_call" in a:
            return (isinstance(st, ast.Assign) and len(st.targets) == 1 and isinstance(st.targets[0], ast.Name)
                    and st.targets[0].id == a["assign_call"][0] and isinstance(st.value, ast.Call)
                    and FunTranslator.dotted(st.value.func) == a["assign_call"][1])
        return False

    starts = [i for i, st in enumerate(body) if is_start(st)]
    if len(starts) != 1:
        _bad(fn, f"{fn.name}: the start of the slice {sl['name']} is not found exactly once at the top level")
    i0 = starts[0]
    if b.get("before_if_raise"):
        js = [j for j in range(i0 + 1, len(body)) if isinstance(body[j], ast.If)]
        if not js:
            _bad(fn, f"{fn.name}: no top-level if after the start of the slice {sl['name']}")
        st = body[js[0]]
        if not (len(st.body) == 1 and isinstance(st.body[0], ast.Raise) and not st.orelse):
            _bad(st, f"{fn.name}: the if statement that ends the slice {sl['name']} is not `if ...: raise ...`")
        end = js[0]
    elif "through_assign" in b:
        js = [j for j in range(i0, len(body)) if isinstance(body[j], ast.Assign) and len(body[j].targets) == 1
              and isinstance(body[j].targets[0], ast.Name) and body[j].targets[0].id == b["through_assign"]]
        if len(js) != 1:
            _bad(fn, f"{fn.name}: `{b['through_assign']} = ...` is not found exactly once after the start of {sl['name']}")
        end = js[0] + 1
    elif b.get("before_return"):
        if not isinstance(body[-1], ast.Return) or i0 >= len(body) - 1:
            _bad(fn, f"{fn.name}: the function does not end with a return statement")
        end = len(body) - 1
    elif b.get("through_return"):
        if not isinstance(body[-1], ast.Return) or any(isinstance(n, ast.Return) for st in body[:-1] for n in ast.walk(st)):
            _bad(fn, f"{fn.name}: the function does not end with its only return statement")
        end = len(body)
    elif "through_call" in b:
        js = [j for j in range(i0 + 1, len(body)) if isinstance(body[j], ast.Expr) and isinstance(body[j].value, ast.Call)
              and isinstance(body[j].value.func, ast.Name) and body[j].value.func.id == b["through_call"]]
        if len(js) != 1:
            _bad(fn, f"{fn.name}: the statement `{b['through_call']}(...)` is not found exactly once after the start of "
                     f"{sl['name']}")
        end = js[0] + 1
    elif "through_if_name" in b:
        js = [j for j in range(i0 + 1, len(body)) if isinstance(body[j], ast.If) and isinstance(body[j].test, ast.Name)
              and body[j].test.id == b["through_if_name"]]
        if len(js) != 1:
            _bad(fn, f"{fn.name}: `if {b['through_if_name']}:` is not found exactly once after the start of {sl['name']}")
        end = js[0] + 1
    elif b.get("single"):
        end = i0 + 1
    elif b.get("to_end"):
        if any(isinstance(n, ast.Return) for st in body for n in ast.walk(st)):
            _bad(fn, f"{fn.name}: the function contains a return statement (slice {sl['name']} runs to its end)")
        end = len(body)
    elif "before_assign" in b:
        js = [j for j in range(i0 + 1, len(body)) if isinstance(body[j], ast.Assign) and len(body[j].targets) == 1
              and isinstance(body[j].targets[0], ast.Name) and body[j].targets[0].id == b["before_assign"]]
        if not js:
            _bad(fn, f"{fn.name}: `{b['before_assign']} = ...` is not found after the start of {sl['name']}")
        end = js[0]
    else:
        _bad(fn, f"slice {sl['name']}: no stop marker")
    stmts = [copy.deepcopy(st) for st in body[i0:end]]
    if not stmts:
        _bad(fn, f"{fn.name}: the slice {sl['name']} is empty")
    writes = {}
    if a.get("with_open"):
        w = stmts[0]
        ok = (len(w.items) == 1 and isinstance(w.items[0].optional_vars, ast.Name)
              and isinstance(w.items[0].context_expr, ast.Call) and isinstance(w.items[0].context_expr.func, ast.Name)
              and w.items[0].context_expr.func.id == "open" and not w.items[0].context_expr.keywords
              and all(isinstance(x, (ast.Name, ast.Constant)) for x in w.items[0].context_expr.args)
              and "write" in sl)
        if not ok:
            _bad(w, f"{fn.name}: the slice {sl['name']} does not start with `with open(<names/constants>) as f:`")
        if any(isinstance(n, ast.Name) and n.id == "open" and not isinstance(n.ctx, ast.Load) for n in ast.walk(fn)) \
                or "open" in [x.arg for x in fn.args.args]:
            _bad(w, f"{fn.name}: the name open is rebound")
        writes[w.items[0].optional_vars.id] = (sl["write"]["method"], sl["write"]["stream"])
        stmts = list(w.body) + stmts[1:]
    stmts = desugar_listcomps(stmts, {n.id for n in ast.walk(fn) if isinstance(n, ast.Name)}
                              | {x.arg for x in fn.args.args})
    if sl.get("click_options"):
        check_click_options(fn, sl["click_options"])
    stores = dict(sl.get("self_stores", {}))
    if stores:
        selfname = fn.args.args[0].arg if fn.args.args else None
        if selfname is None or selfname in sl["params"]:
            _bad(fn, f"{fn.name}: no self parameter")

        class W(ast.NodeTransformer):
            def visit_Attribute(self, n):
                if isinstance(n.value, ast.Name) and n.value.id == selfname and n.attr in stores \
                        and isinstance(n.ctx, ast.Store):
                    return ast.copy_location(ast.Name(id=stores[n.attr], ctx=ast.Store()), n)
                return self.generic_visit(n)

        used = {n.id for n in ast.walk(fn) if isinstance(n, ast.Name)} | {x.arg for x in fn.args.args}
        for v in stores.values():
            if v in used:
                _bad(fn, f"{fn.name}: the name {v} (standing for a stored attribute of {selfname}) occurs in the function")
        stmts = [W().visit(st) for st in stmts]
    for obj, amap in dict(sl.get("obj_attrs", {})).items():
        if obj not in [x.arg for x in fn.args.args] or obj in sl["params"]:
            _bad(fn, f"{fn.name}: {obj} is not a parameter of the function (or is also a parameter of the slice)")
        if any(isinstance(n, ast.Name) and n.id == obj and not isinstance(n.ctx, ast.Load) for n in ast.walk(fn)):
            _bad(fn, f"{fn.name}: the parameter {obj} is rebound")
        used = {n.id for n in ast.walk(fn) if isinstance(n, ast.Name)} | {x.arg for x in fn.args.args}
        for v in amap.values():
            if v in used:
                _bad(fn, f"{fn.name}: the name {v} (standing for an attribute of {obj}) occurs in the function")

        class O(ast.NodeTransformer):
            def visit_Attribute(self, n):
                if isinstance(n.value, ast.Name) and n.value.id == obj and n.attr in amap and isinstance(n.ctx, ast.Load):
                    return ast.copy_location(ast.Name(id=amap[n.attr], ctx=ast.Load()), n)
                return self.generic_visit(n)

        stmts = [O().visit(st) for st in stmts]
        for st in stmts:
            for n in ast.walk(st):
                if isinstance(n, ast.Name) and n.id == obj:
                    _bad(n, f"{fn.name}: {obj} is used other than by reading {sorted(amap)}")
    for k, (dname, stream) in enumerate(dict(sl.get("log_calls", {})).items()):
        syn = "_log_" + "".join(c if c.isalnum() else "_" for c in dname)
        if syn in {n.id for n in ast.walk(fn) if isinstance(n, ast.Name)} | {x.arg for x in fn.args.args}:
            _bad(fn, f"{fn.name}: the name {syn} occurs in the function")

        class G(ast.NodeTransformer):
            def visit_Expr(self, n):
                v = n.value
                if isinstance(v, ast.Call) and FunTranslator.dotted(v.func) == dname:
                    if len(v.args) != 1 or v.keywords:
                        _bad(n, f"{dname}(...): one positional argument expected")
                    return ast.copy_location(ast.Expr(value=ast.Call(func=ast.Name(id=syn, ctx=ast.Load()), args=v.args,
                                                                     keywords=[])), n)
                return n

        stmts = [G().visit(st) for st in stmts]
        sl.setdefault("_outputs", {})[syn] = {"stream": stream, "args": [0]}
    state = dict(sl.get("self_state", {}))
    cols = {k: dict(v) for k, v in dict(sl.get("struct_cols", {})).items()}
    if state or cols:
        selfname = fn.args.args[0].arg if fn.args.args else None
        if selfname is None or selfname in sl["params"]:
            _bad(fn, f"{fn.name}: no self parameter")
        used = {n.id for n in ast.walk(fn) if isinstance(n, ast.Name)} | {x.arg for x in fn.args.args}
        new_names = list(state.values()) + [v for m in cols.values() for v in m.values()]
        for v in new_names:
            if v in used or new_names.count(v) != 1:
                _bad(fn, f"{fn.name}: the name {v} (standing for an attribute of {selfname}) occurs in the function / twice")

        len_bound = "len" in [x.arg for x in fn.args.args] or any(
            isinstance(n, ast.Name) and n.id == "len" and not isinstance(n.ctx, ast.Load) for n in ast.walk(fn))

        def is_self_attr(n, names):
            return isinstance(n, ast.Attribute) and isinstance(n.value, ast.Name) and n.value.id == selfname \
                and n.attr in names

        class C(ast.NodeTransformer):
            """self.variants["id"] -> the column parameter; len(self.variants) -> len(<the first column parameter>)"""
            def visit_Subscript(self, n):
                if is_self_attr(n.value, cols) and isinstance(n.ctx, ast.Load) and isinstance(n.slice, ast.Constant) \
                        and n.slice.value in cols[n.value.attr]:
                    return ast.copy_location(ast.Name(id=cols[n.value.attr][n.slice.value], ctx=ast.Load()), n)
                return self.generic_visit(n)

            def visit_Call(self, n):
                if isinstance(n.func, ast.Name) and n.func.id == "len" and len(n.args) == 1 and not n.keywords \
                        and is_self_attr(n.args[0], cols) and not len_bound:
                    first = list(cols[n.args[0].attr].values())[0]
                    return ast.copy_location(ast.Call(func=n.func, args=[ast.Name(id=first, ctx=ast.Load())], keywords=[]), n)
                return self.generic_visit(n)

        class S(ast.NodeTransformer):
            def visit_Attribute(self, n):
                if is_self_attr(n, state) and isinstance(n.ctx, (ast.Load, ast.Store)):
                    return ast.copy_location(ast.Name(id=state[n.attr], ctx=n.ctx), n)
                return self.generic_visit(n)

        stmts = [S().visit(C().visit(st)) for st in stmts]
    attrs = dict(sl.get("self_attrs", {}))
    if (state or cols) and not attrs:
        for st in stmts:
            for n in ast.walk(st):
                if isinstance(n, ast.Name) and n.id == selfname:
                    _bad(n, f"{fn.name}: {selfname} is used other than through the declared attributes")
    if attrs:
        selfname = fn.args.args[0].arg if fn.args.args else None
        if selfname is None or selfname in sl["params"]:
            _bad(fn, f"{fn.name}: no self parameter")

        class R(ast.NodeTransformer):
            def visit_Attribute(self, n):
                if isinstance(n.value, ast.Name) and n.value.id == selfname and n.attr in attrs \
                        and isinstance(n.ctx, ast.Load):
                    return ast.copy_location(ast.Name(id=attrs[n.attr], ctx=ast.Load()), n)
                return self.generic_visit(n)

        stmts = [R().visit(st) for st in stmts]
        for st in stmts:
            for n in ast.walk(st):
                if isinstance(n, ast.Name) and n.id == selfname:
                    _bad(n, f"{fn.name}: {selfname} is used other than by reading {sorted(attrs)}")
                if isinstance(n, ast.Name) and n.id in attrs.values() and not isinstance(n.ctx, ast.Load):
                    _bad(n, f"{fn.name}: the name {n.id} (standing for an attribute of {selfname}) is bound in the slice")
    if sl.get("result"):
        stmts.append(ast.Return(value=ast.Name(id=sl["result"], ctx=ast.Load(), lineno=stmts[-1].lineno),
                                lineno=stmts[-1].lineno))
    args = ast.arguments(posonlyargs=[], args=[ast.arg(arg=p) for p in sl["params"]], vararg=None, kwonlyargs=[],
                         kw_defaults=[], kwarg=None, defaults=[])
    node = ast.FunctionDef(name=sl["name"], args=args, body=stmts, decorator_list=[], lineno=fn.lineno)
    ast.fix_missing_locations(node)
    return node, writes


def check_click_options(fn, want):
    """the click declarations behind the parameters of a command function (see the module docstring, "click_options")"""
    found = {}
    for d in fn.decorator_list:
        if not (isinstance(d, ast.Call) and FunTranslator.dotted(d.func) == "click.option"):
            continue
        names = [x.value for x in d.args if isinstance(x, ast.Constant) and isinstance(x.value, str)]
        if len(names) != len(d.args) or not names:
            _bad(d, f"{fn.name}: click.option with parameter declarations that are not string literals")
        plain = [n for n in names if not n.startswith("-")]
        if len(plain) > 1:
            _bad(d, f"{fn.name}: click.option with two parameter names")
        if plain:
            pname = plain[0]
        else:
            dashes = lambda n: len(n) - len(n.lstrip("-"))
            best = max(dashes(n) for n in names)
            pname = [n for n in names if dashes(n) == best][0].lstrip("-").replace("-", "_").lower()
        found.setdefault(pname, []).append(d)
    params = [x.arg for x in fn.args.args]
    for pname, kind in want.items():
        ds = found.get(pname, [])
        if len(ds) != 1 or pname not in params:
            _bad(fn, f"{fn.name}: the parameter {pname} is not declared by exactly one click.option")
        kw = {k.arg: k.value for k in ds[0].keywords}
        if None in kw or any(k in kw for k in ("nargs", "is_flag", "count", "default", "callback", "flag_value", "envvar",
                                                "expose_value", "is_eager", "cls", "prompt")):
            _bad(ds[0], f"{fn.name}: the option {pname} has nargs / is_flag / count / default / callback / ...")
        mult = kw.get("multiple")
        mult = bool(isinstance(mult, ast.Constant) and mult.value is True) if mult is not None else False
        if "multiple" in kw and not isinstance(kw["multiple"], ast.Constant):
            _bad(ds[0], f"{fn.name}: the option {pname}: multiple is not a literal")
        t = kw.get("type")
        if kind == "file_r":
            ok = (not mult and isinstance(t, ast.Call) and FunTranslator.dotted(t.func) == "click.File"
                  and not t.keywords and len(t.args) == 1 and isinstance(t.args[0], ast.Constant) and t.args[0].value == "r")
        elif kind == "multi_str":
            ok = mult and isinstance(t, ast.Name) and t.id == "str"
        else:
            ok = False
        if not ok:
            _bad(ds[0], f"{fn.name}: the option {pname} is not declared as {kind}")


def desugar_listcomps(stmts, used):
    """`x = [elt for v in it]` (one generator, no condition, v a name; x in neither elt nor it) as
    `x = []; for _cN in it: x.append(elt[v := _cN])`, recursively in the bodies of if / for / while / with"""
    out = []
    for st in stmts:
        for fld in ("body", "orelse"):
            if isinstance(st, (ast.If, ast.For, ast.While, ast.With)) and getattr(st, fld, None):
                setattr(st, fld, desugar_listcomps(getattr(st, fld), used))
        if isinstance(st, ast.Assign) and len(st.targets) == 1 and isinstance(st.targets[0], ast.Name) \
                and isinstance(st.value, ast.ListComp):
            lc, x = st.value, st.targets[0].id
            g = lc.generators[0]
            inner = [n for part in (lc.elt, g.iter) for n in ast.walk(part)]
            ok = (len(lc.generators) == 1 and not g.ifs and not g.is_async and isinstance(g.target, ast.Name)
                  and not any(isinstance(n, (ast.Lambda, ast.ListComp, ast.SetComp, ast.DictComp, ast.GeneratorExp,
                                             ast.NamedExpr)) for n in inner)
                  and not any(isinstance(n, ast.Name) and n.id == x for n in inner)
                  and not any(isinstance(n, ast.Name) and n.id == g.target.id for n in ast.walk(g.iter)))
            if not ok:
                out += desugar_listcomp_general(st, used)
                continue
            k = 1
            while f"_c{k}" in used:
                k += 1
            fresh = f"_c{k}"
            used.add(fresh)
            v = g.target.id

            class Ren(ast.NodeTransformer):
                def visit_Name(self, n):
                    return ast.copy_location(ast.Name(id=fresh, ctx=n.ctx), n) if n.id == v else n

            elt = Ren().visit(lc.elt)
            init = ast.copy_location(ast.Assign(targets=[ast.Name(id=x, ctx=ast.Store())],
                                                value=ast.List(elts=[], ctx=ast.Load())), st)
            app = ast.Expr(value=ast.Call(func=ast.Attribute(value=ast.Name(id=x, ctx=ast.Load()), attr="append",
                                                             ctx=ast.Load()), args=[elt], keywords=[]))
            loop = ast.copy_location(ast.For(target=ast.Name(id=fresh, ctx=ast.Store()), iter=g.iter, body=[app],
                                             orelse=[]), st)
            out += [init, loop]
        else:
            out.append(st)
    return out


def desugar_listcomp_general(st, used):
    """`x = [elt for <name or tuple of names> in it if c1 if c2 ...]` (one generator; x may occur in it / elt):
    `_cA = []; for <fresh targets> in it: if c1: if c2: _cA.append(elt); x = _cA[:]` - the comprehension's own variables are
    renamed to fresh names everywhere in elt and the conditions (they are local to the comprehension in Python, and `it`
    is evaluated outside their scope)"""
    lc, x = st.value, st.targets[0].id
    g = lc.generators[0]
    parts = [lc.elt, g.iter] + list(g.ifs)
    inner = [n for part in parts for n in ast.walk(part)]
    tnames = [g.target.id] if isinstance(g.target, ast.Name) else \
        [e.id for e in g.target.elts if isinstance(e, ast.Name)] if isinstance(g.target, ast.Tuple) else []
    ok = (len(lc.generators) == 1 and not g.is_async and tnames
          and (isinstance(g.target, ast.Name) or len(tnames) == len(g.target.elts))
          and len(set(tnames)) == len(tnames)
          and not any(isinstance(n, (ast.Lambda, ast.ListComp, ast.SetComp, ast.DictComp, ast.GeneratorExp,
                                     ast.NamedExpr)) for n in inner)
          and not any(isinstance(n, ast.Name) and n.id in tnames for n in ast.walk(g.iter)))
    if not ok:
        _bad(st, "list comprehension outside the translated form")

    def fresh():
        k = 1
        while f"_c{k}" in used:
            k += 1
        used.add(f"_c{k}")
        return f"_c{k}"

    acc = fresh()
    ren = {v: fresh() for v in tnames}

    class Ren(ast.NodeTransformer):
        def visit_Name(self, n):
            return ast.copy_location(ast.Name(id=ren[n.id], ctx=n.ctx), n) if n.id in ren else n

    elt = Ren().visit(lc.elt)
    conds = [Ren().visit(c) for c in g.ifs]
    target = Ren().visit(g.target)
    init = ast.copy_location(ast.Assign(targets=[ast.Name(id=acc, ctx=ast.Store())], value=ast.List(elts=[], ctx=ast.Load())),
                             st)
    inner_st = ast.Expr(value=ast.Call(func=ast.Attribute(value=ast.Name(id=acc, ctx=ast.Load()), attr="append",
                                                          ctx=ast.Load()), args=[elt], keywords=[]))
    for c in reversed(conds):
        inner_st = ast.If(test=c, body=[inner_st], orelse=[])
    loop = ast.copy_location(ast.For(target=target, iter=g.iter, body=[inner_st], orelse=[]), st)
    fin = ast.copy_location(ast.Assign(
        targets=[ast.Name(id=x, ctx=ast.Store())],
        value=ast.Subscript(value=ast.Name(id=acc, ctx=ast.Load()), slice=ast.Slice(lower=None, upper=None, step=None),
                            ctx=ast.Load())), st)
    return [init, loop, fin]


def check_plain_attrs(classdefs, attrs, class_reads=()):
    """classdefs: the class of a method and all its bases (ClassDef nodes, in order); none of them may make one of
    `attrs` anything but a plain instance attribute"""
    names = [c.name for c in classdefs]
    for k, c in enumerate(classdefs):
        if c.keywords or c.decorator_list:
            _bad(c, f"class {c.name} has a metaclass / decorators")
        for bnode in c.bases:
            bn = bnode.id if isinstance(bnode, ast.Name) else None
            if bn not in ("ABC", "object") and bn not in names[k + 1:]:
                _bad(c, f"class {c.name}: base class {ast.dump(bnode) if bn is None else bn} is not in class_chain")
        for item in c.body:
            if isinstance(item, (ast.FunctionDef, ast.AsyncFunctionDef)):
                if item.name in ("__getattr__", "__getattribute__", "__setattr__", "__slots__") or item.name in attrs:
                    _bad(item, f"class {c.name} defines {item.name}")
            elif isinstance(item, (ast.Assign, ast.AnnAssign, ast.AugAssign)):
                tg = item.targets if isinstance(item, ast.Assign) else [item.target]
                for t in tg:
                    for x in ast.walk(t):
                        if isinstance(x, ast.Name) and x.id in class_reads and isinstance(item, ast.Assign) \
                                and item.targets == [x] and isinstance(item.value, (ast.Name, ast.Constant)):
                            continue    # a plain class-level default of an attribute that is only read
                        if isinstance(x, ast.Name) and (x.id in attrs or x.id == "__slots__"):
                            _bad(item, f"class {c.name} has the class attribute {x.id}")
            elif isinstance(item, ast.Expr) and isinstance(item.value, ast.Constant):
                continue
            else:
                _bad(item, f"class {c.name}: unsupported member")


def module_binds(tree, name):
    """does the module bind `name` at its top level (def / class / assignment / import)?"""
    for n in tree.body:
        if isinstance(n, (ast.FunctionDef, ast.AsyncFunctionDef, ast.ClassDef)) and n.name == name:
            return True
        if isinstance(n, (ast.Import, ast.ImportFrom)):
            if any((al.asname or al.name.split(".")[0]) == name for al in n.names):
                return True
        elif not isinstance(n, (ast.FunctionDef, ast.AsyncFunctionDef, ast.ClassDef)):
            for x in ast.walk(n):
                if isinstance(x, ast.Name) and x.id == name and not isinstance(x.ctx, ast.Load):
                    return True
    return False


def imports_counter(tree):
    imp = [n for n in tree.body if isinstance(n, ast.ImportFrom) and n.module == "collections" and n.level == 0
           and any(al.name == "Counter" and al.asname is None for al in n.names)]
    others = 0
    for n in tree.body:
        if n in imp:
            others += sum(1 for al in n.names if (al.asname or al.name) == "Counter") - 1
        elif isinstance(n, (ast.Import, ast.ImportFrom)):
            others += sum(1 for al in n.names if (al.asname or al.name.split(".")[0]) == "Counter" or al.name == "*")
        elif isinstance(n, (ast.FunctionDef, ast.AsyncFunctionDef, ast.ClassDef)):
            others += n.name == "Counter"
        else:
            others += sum(1 for x in ast.walk(n) if isinstance(x, ast.Name) and x.id == "Counter"
                          and not isinstance(x.ctx, ast.Load))
    return len(imp) == 1 and others == 0


def translate(spec, repo):
    """spec = {"module": "Gen_X", "classes": [(relfile, ClassName, id)], "functions": [(relfile, fname)]}
    Functions are translated in the order given; each may call the earlier ones.  Optional keys: see the module
    docstring (float_div, state_classes, externals, outputs, ignore_calls)."""
    trees = {}

    def tree(rel):
        if rel not in trees:
            with open(os.path.join(repo, rel)) as f:
                trees[rel] = ast.parse(f.read())
        return trees[rel]

    def top(rel, kind, name):
        nodes = [n for n in tree(rel).body if isinstance(n, kind) and n.name == name]
        if len(nodes) != 1:
            raise Untranslatable(f"{rel}: {kind.__name__} {name} not found exactly once at module level")
        return nodes[0]

    ctx = Ctx(spec)
    classes, funs, strtab = {}, {}, {}
    out = ["(* GENERATED by harness/pytrans.py from the current source of the repository - do not edit *)",
           "From HV Require Import Prelude MiniPy.", "From Coq Require Import String" +
           (" QArith" if ctx.float_div or ctx.float_add else "") + ".",
           "Open Scope string_scope.", "Open Scope Z_scope.", ""]
    for rel, cname, cid in spec.get("classes", []):
        ci = parse_class(top(rel, ast.ClassDef, cname), cid)
        classes[cname] = ci
        out.append(f"(* class {cname} = VObj {cid} [{'; '.join(ci.fields)}] *)")
        out.append(f"Definition cls_{cname} : Z := {cz(cid)}.")
        out.append(f"Definition fields_{cname} : list string := {clist(cstr(x) for x in ci.fields)}.")
    for rel, cname, cid, attrs in spec.get("state_classes", []):
        ci = parse_state_class(top(rel, ast.ClassDef, cname), cid, attrs)
        classes[cname] = ci
        out.append(f"(* state class {cname} = VObj {cid} [{'; '.join(ci.fields)}] (other attributes are not modelled) *)")
        out.append(f"Definition cls_{cname} : Z := {cz(cid)}.")
        out.append(f"Definition fields_{cname} : list string := {clist(cstr(x) for x in ci.fields)}.")
    out.append("")
    externals = []
    for rel, fname in spec.get("externals", []):
        node = top(rel, ast.FunctionDef, fname)
        a = node.args
        if a.vararg or a.kwarg or a.kwonlyargs or a.defaults or a.posonlyargs:
            _bad(node, f"external {fname}: unsupported signature")
        funs[fname] = FunInfo(fname, [x.arg for x in a.args], set())
        externals.append(fname)
    def cident(x):
        return "".join(c if c.isalnum() else "_" for c in x)

    # further untranslated operations (C18): (key in the function table, Section variable, comment)
    extra = [("$m." + m, "extm_" + cident(m), f"<e>.{m}(...): the method of a built-in value, on (e, arguments)")
             for m in ctx.ext_methods]
    extra += [("$b." + b, "extb_" + cident(b), f"{b}(e)") for b in ctx.ext_builtins]
    extra += [("$c." + d, "extc_" + cident(d), f"{d}(...)") for d in ctx.ext_dotted]
    if ctx.float_add:
        extra.append(("$fadd", "fadd", "a + b with a float literal operand (binary64 addition is not modelled)"))
    if ctx.ext_str:
        extra.append(("$str", "ext_str", "str(v) / format(v) of a value that is neither a string nor an int, in an f-string"))
    extra += [("$s." + d, "exts_" + cident(d), f"{d}(...): a call with an effect on the state {st}; the new state, on "
               f"(old state, arguments)") for d, st in ctx.state_calls.items()]
    if len({v for _, v, _ in extra}) != len(extra):
        raise Untranslatable("two untranslated operations share a Section variable name")
    section = ctx.float_div or bool(externals) or bool(extra)
    prev_ft = "ft_empty"
    if section:
        out.append("Section Gen.")
        if ctx.float_div:
            out.append("(* the float64 nearest to x / y, by its exact value (Python's int / int) *)")
            out.append("Variable fdiv : Z -> Z -> Q.")
        for fname in externals:
            out.append(f"(* {fname}({', '.join(funs[fname].params)}): not translated; any function of the argument values *)")
            out.append(f"Variable ext_{fname} : list val -> res val.")
        for key, var, what in extra:
            out.append(f"(* {what}: not translated; any function of the argument values *)")
            out.append(f"Variable {var} : list val -> res val.")
        base = "ft_empty"
        for key, var, what in reversed(extra):
            base = f"(ft_add {cstr(key)} (ext_fn {var}) {base})"
        for fname in reversed(externals):
            base = f"(ft_add {cstr(fname)} (ext_fn ext_{fname}) {base})"
        if ctx.float_div:
            base = f"(ft_add {cstr('$truediv')} (truediv_fn fdiv) {base})"
        out.append(f"Definition ft_base : ftable := {base}.")
        out.append("")
        prev_ft = "ft_base"
    late_str = False
    late_sections = []
    for k, item in enumerate(spec["functions"]):
        rel, fname = item[0], item[1]
        objects = {}
        text_mode, writes = None, None
        if len(item) > 2 and item[2].get("ext_str") and not late_str:
            # from here on str(v) / format(v) of a value that is neither a string nor an int is the Section variable
            # ext_str; the functions translated so far stay outside the section (their text does not change)
            if ctx.ext_str:
                raise Untranslatable("ext_str both for the whole module and for one function")
            late_str = True
            out.append("Section GenStr.")
            out.append("(* str(v) / format(v) of a value that is neither a string nor an int, in an f-string: not translated; "
                       "any function of the value *)")
            out.append("Variable ext_str : list val -> res val.")
            out.append(f"Definition ft_str (fuel : nat) : ftable := ft_add {cstr('$str')} (ext_fn ext_str) ({prev_ft}).")
            out.append("")
            prev_ft = "ft_str fuel"
        if len(item) > 2 and item[2].get("late_externals"):
            # externals declared from here on only (the functions translated so far keep their text and arity)
            out.append(f"Section GenLate{len(late_sections)}.")
            late_sections.append(f"GenLate{len(late_sections)}")
            names = []
            for lrel, lname in item[2]["late_externals"]:
                lnode = top(lrel, ast.FunctionDef, lname)
                la = lnode.args
                if la.vararg or la.kwarg or la.kwonlyargs or la.defaults or la.posonlyargs or lname in funs:
                    _bad(lnode, f"external {lname}: unsupported signature / name already taken")
                funs[lname] = FunInfo(lname, [x.arg for x in la.args], set())
                out.append(f"(* {lname}({', '.join(funs[lname].params)}): not translated; any function of the argument values *)")
                out.append(f"Variable ext_{lname} : list val -> res val.")
                names.append(lname)
            base = f"({prev_ft})"
            for lname in reversed(names):
                base = f"(ft_add {cstr(lname)} (ext_fn ext_{lname}) {base})"
            out.append(f"Definition ft_late{len(late_sections) - 1} (fuel : nat) : ftable := {base}.")
            out.append("")
            prev_ft = f"ft_late{len(late_sections) - 1} fuel"
        ctx.counter_ok = imports_counter(tree(rel))
        ctx.set_ok = not module_binds(tree(rel), "set")
        ctx.tuple_ok = not module_binds(tree(rel), "tuple")
        ctx.dictzip_ok = not module_binds(tree(rel), "dict") and not module_binds(tree(rel), "zip")
        ctx.map_ok = not module_binds(tree(rel), "map")
        ctx.raise_state = None
        ctx.outputs = dict(spec.get("outputs", {}))
        ctx.plain_imports = {al.name for n in tree(rel).body if isinstance(n, ast.Import) for al in n.names
                             if al.asname is None and "." not in al.name
                             and sum(1 for m in tree(rel).body if isinstance(m, (ast.Import, ast.ImportFrom))
                                     for bl in m.names if (bl.asname or bl.name.split(".")[0]) == al.name) == 1
                             and not any(isinstance(m, (ast.FunctionDef, ast.AsyncFunctionDef, ast.ClassDef))
                                         and m.name == al.name for m in tree(rel).body)}
        if len(item) > 2 and item[2].get("top"):
            sl = item[2]
            if sl.get("in_class"):
                cnode = top(rel, ast.ClassDef, sl["in_class"])
                cands = [m for m in cnode.body if isinstance(m, ast.FunctionDef) and m.name == fname]
                if len(cands) != 1 or cands[0].decorator_list:
                    raise Untranslatable(f"{rel}: method {sl['in_class']}.{fname} not found exactly once (undecorated)")
                node = cands[0]
                if sl.get("self_attrs") or sl.get("self_stores") or sl.get("self_state") or sl.get("struct_cols"):
                    chain = [top(r, ast.ClassDef, c) for r, c in sl.get("class_chain", [])]
                    if not chain or chain[0] is not cnode:
                        raise Untranslatable(f"{fname}: class_chain must start with the class of the method")
                    reads = set(sl.get("class_attr_reads", []))
                    if not reads <= set(sl.get("self_attrs", {})):
                        raise Untranslatable(f"{fname}: class_attr_reads must be attributes named in self_attrs")
                    check_plain_attrs(chain, set(sl.get("self_attrs", {})) | set(sl.get("self_stores", {}))
                                      | set(sl.get("self_state", {})) | set(sl.get("struct_cols", {})), reads)
            else:
                node = top(rel, ast.FunctionDef, fname)
                if sl.get("self_attrs") or sl.get("self_stores") or sl.get("self_state") or sl.get("struct_cols"):
                    raise Untranslatable(f"{fname}: self_attrs / self_stores on a function that is not a method")
            node, writes = slice_top(node, sl)
            fname = node.name
            text_mode = sl.get("text")
            ctx.raise_state = sl.get("raise_state")
            ctx.outputs = dict(spec.get("outputs", {}), **sl.get("_outputs", {}))
            if fname in funs:
                raise Untranslatable(f"{fname}: the name is already taken by a translated function")
        elif "." in fname:
            cname, mname = fname.split(".", 1)
            ci = classes.get(cname)
            if ci is None or not ci.state:
                raise Untranslatable(f"{fname}: {cname} is not a declared state class")
            top(rel, ast.ClassDef, cname)
            node = ci.methods.get(mname)
            if node is None or not node.args.args:
                raise Untranslatable(f"{rel}: method {fname} not found")
            if mname in funs:
                raise Untranslatable(f"{fname}: the name {mname} is already taken by a translated function")
            objects = {node.args.args[0].arg: cname}
            fname = mname
        else:
            node = top(rel, ast.FunctionDef, fname)
            if len(item) > 2:
                if "while_var" in item[2]:
                    node = slice_while(node, item[2])
                    objects = dict(item[2].get("objects", {}))
                    for cname in objects.values():
                        if cname not in classes or not classes[cname].state:
                            raise Untranslatable(f"{fname}: {cname} is not a declared state class")
                else:
                    node = slice_function(node, item[2])
                fname = node.name
        is_top = len(item) > 2 and bool(item[2].get("top"))
        text, fi = FunTranslator(node, classes, funs, strtab, ctx, objects, text=text_mode, writes=writes,
                                 slice_vars=is_top).run()
        if not is_top:
            funs[fname] = fi        # a top-level slice is not callable by the functions translated after it
        if objects and "." in item[1]:
            ctx.method_owner[fname] = item[1].split(".", 1)[0]
        out.append(f"(* {rel}: {item[1] if '.' in item[1] else fname}({', '.join(fi.params)}); mutates parameters {sorted(fi.mutated)} *)")
        out.append(text)
        out.append(f"Definition fn_{fname} (fuel : nat) : list val -> res (val * list val) :=\n"
                   f"  run_fun ({prev_ft}) src_{fname} fuel.")
        if is_top:
            out.append("")      # not entered into the function table
            continue
        out.append(f"Definition ft_{k} (fuel : nat) : ftable := ft_add {cstr(fname)} (fn_{fname} fuel) ({prev_ft}).")
        out.append("")
        prev_ft = f"ft_{k} fuel"
    for nm in reversed(late_sections):
        out.append(f"End {nm}.")
        out.append("")
    if late_str:
        out.append("End GenStr.")
        out.append("")
    if section:
        out.append("End Gen.")
        out.append("")
    out.append("(* string literals of the translated functions, as opaque tokens (EStr / VStr) *)")
    for lit, tok in strtab.items():
        ident = "".join(c if c.isalnum() else "_" for c in lit) or "empty"
        out.append(f"Definition strlit_{ident} : Z := {tok}.  (* {lit!r} *)")
    return "\n".join(out)


if __name__ == "__main__":
    import json
    import sys

    spec = json.load(open(sys.argv[1]))
    print(translate(spec, sys.argv[2] if len(sys.argv) > 2 else "/repo"))
