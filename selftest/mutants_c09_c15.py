"""Self-test of the C09 / C15 checks (DESIGN.md section 12): hand-written mutants of the repaired tree,
applied one at a time to a scratch copy (never /repo), each run through ./check with a reduced budget.
usage: /venv/bin/python selftest/mutants_c09_c15.py <patched haptools tree> <scratch dir>
Prints one line per mutant: killed (VIOLATION with failing input) / flagged (no-failing-input-found) / survived."""
import os, re, shutil, subprocess, sys

SRC, SCRATCH = sys.argv[1], sys.argv[2]
M = [
    ("C09", "floor->round", "haptools/sim_phenotype.py", "k = int(prevalence * len(pt))", "k = int(round(prevalence * len(pt)))"),
    ("C09", "bottom-k instead of top-k", "haptools/sim_phenotype.py", "np.argpartition(-pt, k)[:k]", "np.argpartition(pt, k)[:k]"),
    ("C09", "default h2 0.25", "haptools/sim_phenotype.py", "heritability = 0.5", "heritability = 0.25"),
    ("C09", "1/h2 instead of 1/h2-1", "haptools/sim_phenotype.py", "noise *= np.reciprocal(heritability) - 1", "noise *= np.reciprocal(heritability)"),
    ("C09", "sample stdev (ddof=1) in normalize_gts", "haptools/sim_phenotype.py", "std = gts.std(axis=0)", "std = gts.std(axis=0, ddof=1)"),
    ("C09", "one strand only", "haptools/sim_phenotype.py", "gens.data[:, :, :2].sum(axis=2)", "gens.data[:, :, :1].sum(axis=2)"),
    ("C09", "scale = variance", "haptools/sim_phenotype.py", "np.sqrt(noise)", "noise"),
    ("C09", "no cap of sum beta^2 at 1", "haptools/sim_phenotype.py", "                heritability = 1\n", "                pass\n"),
    ("C09", "noise not added", "haptools/sim_phenotype.py", "        pt += pt_noise\n", "        pt = pt + 0 * pt_noise\n"),
    ("C09", "-cc suffix dropped (inside what the property allows)", "haptools/sim_phenotype.py", 'name_suffix = "-cc"', 'name_suffix = ""'),
    ("C09", "seed ignored", "haptools/sim_phenotype.py", "self.rng = np.random.default_rng(seed)", "self.rng = np.random.default_rng()"),
    ("C15", "default float precision in write", "haptools/data/phenotypes.py", 'floatmode="unique",', 'floatmode="maxprec",'),
    ("C15", "#IID line treated as a comment", "haptools/data/phenotypes.py",
     'if not header[0].startswith("#") or header[0].startswith("#IID"):', 'if not header[0].startswith("#"):'),
    ("C15", "missing = <= -9", "haptools/data/phenotypes.py", "mask = self.data == -9", "mask = self.data <= -9"),
    ("C15", "subset columns in file order", "haptools/data/phenotypes.py", "pts.data = pts.data[:, name_idx]", "pts.data = pts.data[:, sorted(name_idx)]"),
    ("C15", "append prepends the name", "haptools/data/phenotypes.py", "self.names = self.names + (name,)", "self.names = (name,) + self.names"),
    ("C15", "sample stdev (ddof=1) in standardize", "haptools/data/phenotypes.py", "std = np.std(self.data, axis=0)", "std = np.std(self.data, axis=0, ddof=1)"),
    ("C15", "bad row replaced by zeros instead of skipped", "haptools/data/phenotypes.py",
     '                except:\n', '                except:\n                    yield Record(np.zeros(len(phen) - 1), phen[0])\n'),
    ("C15", "suffix numbering starts at 2 (inside what the property allows)", "haptools/data/phenotypes.py",
     'new_name = f"{name}-{uniq_names[name]}"', 'new_name = f"{name}-{uniq_names[name] + 1}"'),
    ("C15", "sample filter ignored", "haptools/data/phenotypes.py", "if samples is None or phen[0] in samples:", "if True:"),
]
verif = os.path.dirname(os.path.dirname(os.path.abspath(__file__)))
for prop, what, rel, old, new in M:
    shutil.rmtree(SCRATCH, ignore_errors=True)
    os.makedirs(SCRATCH)
    shutil.copytree(os.path.join(SRC, "haptools"), os.path.join(SCRATCH, "haptools"))
    p = os.path.join(SCRATCH, rel)
    s = open(p).read()
    assert s.count(old) == 1, (what, s.count(old))
    open(p, "w").write(s.replace(old, new))
    env = dict(os.environ, HAPTOOLS_REPO=SCRATCH, VERIF_NPROC=os.environ.get("VERIF_NPROC", "6"),
               HV_A7_SCALE=os.environ.get("HV_A7_SCALE", "0.04"))
    r = subprocess.run(["timeout", "1500", os.path.join(verif, "check"), prop, "quick"], capture_output=True, text=True, env=env)
    vio = [l for l in r.stdout.splitlines() if l.startswith("VIOLATION")]
    for l in vio:  # the replay files of mutants are not findings: remove them
        m = re.search(r"replay=(\S+)", l)
        if m and os.path.exists(m.group(1)):
            os.unlink(m.group(1))
    verdict = ("survived" if r.returncode == 0 else "harness-error" if r.returncode == 2 else
               "flagged (no-failing-input-found)" if vio and all("no-failing-input-found" in l for l in vio) else "killed")
    print(f"{prop} | {what} | {verdict} | exit {r.returncode} | {len(vio)} VIOLATION line(s)", flush=True)
shutil.rmtree(SCRATCH, ignore_errors=True)
