#!/bin/bash
# MANIFEST.setup_cmd: full .vo build of the Coq development (no -vos), offline.
set -e
cd "$(dirname "$0")/coq"
{ echo "-Q theories HV"; ls theories/*.v; } > _CoqProject
coq_makefile -f _CoqProject -o Makefile > /dev/null
# -k: a file that fails to compile must not hide the others; every check re-runs make for
# the modules it needs and fails closed if they do not build.
timeout 3000 make -k -j16 || echo "setup: some files failed to build (the affected checks will report it)"
