#!/bin/bash
# MANIFEST.setup_cmd: full .vo build of the Coq development (no -vos), offline.
set -e
cd "$(dirname "$0")/coq"
{ echo "-Q theories HV"; ls theories/*.v; } > _CoqProject
coq_makefile -f _CoqProject -o Makefile > /dev/null
timeout 3000 make -j16
