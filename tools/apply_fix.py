#!/venv/bin/python
"""usage: apply_fix.py <property> <fix-name> [<corpus witness> ...]
Applies fixes/<fix-name>.patch to /repo, runs the pinned baseline, commits with fixes/<fix-name>.msg
(must start with 'fix:'), and records a status=fixed entry in known_findings.json."""
import json, os, subprocess, sys
V = os.path.dirname(os.path.dirname(os.path.abspath(__file__)))
prop, name, *wit = sys.argv[1:]
patch = os.path.join(V, "fixes", name + ".patch")
msgf = os.path.join(V, "fixes", name + ".msg")
msg = open(msgf).read().strip() if os.path.exists(msgf) else None
if not msg or not msg.startswith("fix:"):
    sys.exit(f"no commit message starting with fix: for {name}")
def run(*a, **k):
    return subprocess.run(a, capture_output=True, text=True, **k)
st = run("git", "-C", "/repo", "status", "--porcelain", "--untracked-files=no").stdout.strip()
if st:
    sys.exit("tracked changes present in /repo: " + st)
r = run("git", "-C", "/repo", "apply", patch)
if r.returncode:
    sys.exit("patch does not apply: " + r.stderr)
b = run(os.path.join(V, "tools", "baseline.sh"), "/repo")
print(b.stdout.strip().splitlines()[-1] if b.stdout.strip() else b.stderr[-300:])
if b.returncode:
    run("git", "-C", "/repo", "checkout", "--", ".")
    sys.exit("baseline fails with this patch; reverted")
files = run("git", "-C", "/repo", "diff", "--name-only").stdout.split()
run("git", "-C", "/repo", "add", *files)
c = run("git", "-C", "/repo", "commit", "-q", "-m", msg)
if c.returncode:
    sys.exit("commit failed: " + c.stderr)
h = run("git", "-C", "/repo", "rev-parse", "--short", "HEAD").stdout.strip()
kf = os.path.join(V, "known_findings.json")
data = json.load(open(kf))
first = msg.splitlines()[0][len("fix:"):].strip()
data["findings"].append({
    "id": name.replace("_", "-", 1),
    "property": prop,
    "status": "fixed",
    "commit": h,
    "what": first,
    "line": f"fixed: property={prop} {h} {first}",
    "witness": [w for w in wit],
    "patch": f"fixes/{name}.patch",
})
json.dump(data, open(kf, "w"), indent=1)
open(kf, "a").write("\n")
print("committed", h, first)
