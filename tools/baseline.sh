#!/bin/bash
# Runs the repository's pinned baseline (guard off) and compares with BASELINE.json's stable_pass set.
# usage: tools/baseline.sh [repo_dir]
REPO_DIR="${1:-/repo}"
OUT=$(mktemp /tmp/hv_junit.XXXXXX.xml)
cd "$REPO_DIR" || exit 2
env -u HAPTOOLS_VERIF /venv/bin/python -m pytest -ra -q -p no:cacheprovider --timeout=900 --continue-on-collection-errors --junitxml="$OUT" > /dev/null 2>&1
/venv/bin/python - "$OUT" <<'PY'
import json, sys, xml.etree.ElementTree as ET
base = set(json.load(open('/root/.vp/BASELINE.json'))['stable_pass'])
passed = set()
for tc in ET.parse(sys.argv[1]).getroot().iter('testcase'):
    if not any(ch.tag in ('failure', 'error', 'skipped') for ch in tc):
        passed.add(f"{tc.get('classname')}::{tc.get('name')}")
missing = sorted(base - passed)
print(f"baseline: {len(base & passed)}/{len(base)} stable tests pass; newly passing beyond baseline: {len(passed - base)}")
for m in missing:
    print("  FAILS:", m)
sys.exit(1 if missing else 0)
PY
rc=$?
rm -f "$OUT"
exit $rc
