#!/venv/bin/python
"""Regenerates MANIFEST.json from the property modules present in harness/."""
import json
import os
import sys

VERIF = os.path.dirname(os.path.dirname(os.path.abspath(__file__)))
sys.path.insert(0, VERIF)
os.environ.setdefault("HAPTOOLS_REPO", "/repo")
sys.path.insert(0, os.environ["HAPTOOLS_REPO"])
from harness.main import PROPS, available  # noqa

mods = available()
checks = []
na = []
for p in PROPS:
    if p in mods and getattr(mods[p], "CLAIMED", False):
        m = mods[p]
        checks.append({
            "property_id": p,
            "quick_cmd": f"./check {p} quick",
            "thorough_cmd": f"./check {p} thorough",
            "evidence_file": f"/verif/evidence/{p}.json",
            "replay_cmd_template": "./check --replay {path}",
            "engine": "coq-model+correspondence",
            "level_claimed": {
                "category": "proof",
                "text": m.LEVEL_TEXT,
                "design_ref": f"DESIGN.md section 5, {p}",
            },
            "level_note": m.LEVEL_NOTE,
            "technique": m.TECHNIQUE,
        })
    else:
        reason = getattr(mods.get(p), "NA_REASON", None) or "check not built yet in this development snapshot (planned: Coq model + correspondence, see DESIGN.md section 5)"
        na.append({"property_id": p, "reason": reason})
manifest = {
    "version": 1,
    "setup_cmd": "./setup.sh",
    "hooks": {
        "guard": "HAPTOOLS_VERIF",
        "enable": "none needed: the harness wraps numpy/pgenlib/pysam attributes from its own process; /repo carries no instrumentation",
        "baseline_off_cmd": "/verif/tools/baseline.sh /repo",
        "source_commits": [],
        "add_only": True,
    },
    "engines": [{
        "name": "coq-model+correspondence",
        "path": "/verif/check",
        "serves_properties": [c["property_id"] for c in checks],
        "kind_free_text": "hand-written Gallina models with Coq 8.16 theorems (coq/theories), tied to /repo on every run by a differential correspondence check whose agree/holds predicates are Coq definitions evaluated by vm_compute on the implementation's observed outputs",
    }],
    "checks": checks,
    "notes": "See DESIGN.md. Fix commits made to /repo are listed in known_findings.json (status=fixed).",
    "not_applicable": na,
}
with open(os.path.join(VERIF, "MANIFEST.json"), "w") as f:
    json.dump(manifest, f, indent=1)
    f.write("\n")
print(f"claimed {len(checks)} not_applicable {len(na)}")
