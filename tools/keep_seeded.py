#!/venv/bin/python
"""usage: keep_seeded.py <seed-id> <property> <src-dir with patch.diff demo.py notes.txt> <detected-by-summary>"""
import json, os, shutil, sys
sid, prop, src, detected = sys.argv[1:5]
dst = os.path.join(os.path.dirname(os.path.dirname(os.path.abspath(__file__))), "seeded", sid)
os.makedirs(dst, exist_ok=True)
for f in ("patch.diff", "demo.py"):
    shutil.copy(os.path.join(src, f), os.path.join(dst, f))
notes = open(os.path.join(src, "notes.txt")).read() if os.path.exists(os.path.join(src, "notes.txt")) else ""
meta = {
    "id": sid,
    "breaks_property": prop,
    "origin": "independent sub-agent given only the property text and a scratch worktree",
    "what_and_needs": notes.strip(),
    "confirmed": "tools/try_mutant.sh patch.diff demo.py " + prop + ": demo exits 0 on the clean tree and 1 on the changed tree; tools/baseline.sh on the changed tree passes 171/171",
    "detected_by": detected,
}
json.dump(meta, open(os.path.join(dst, "meta.json"), "w"), indent=1)
print("kept", dst)
