#!/bin/bash
# usage: tools/kill_all.sh [seeded ids...]   (default: all)  -> one line per seeded change: what its property's quick check says now
cd "$(dirname "$0")/.." || exit 2
mkdir -p .work/logs
IDS="$*"; [ -z "$IDS" ] && IDS=$(ls seeded)
for id in $IDS; do
  d=seeded/$id
  p=$(/venv/bin/python -c "import json;print(json.load(open('$d/meta.json'))['breaks_property'])")
  out=$(BASELINE=0 ./tools/try_mutant.sh $d/patch.diff - $p 2>&1 | grep -v WARNING)
  nv=$(echo "$out" | grep -c '^VIOLATION'); nf=$(echo "$out" | grep -c 'no-failing-input-found')
  if echo "$out" | grep -q "patch does not apply"; then res="PATCH-DOES-NOT-APPLY";
  elif [ "$nv" = "0" ]; then res="MISSED";
  elif [ "$nv" = "$nf" ]; then res="FLAGGED(no-failing-input-found)";
  else res="CAUGHT($((nv-nf)) failing inputs)"; fi
  echo "$id $p $res | $(echo "$out" | grep -E "^C[0-9]+ quick" | cut -c1-160)"
done
