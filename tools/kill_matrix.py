#!/venv/bin/python
"""Prints the kill matrix of seeded regressions (seeded/*/meta.json) as a markdown table."""
import glob, json, os, re
V = os.path.dirname(os.path.dirname(os.path.abspath(__file__)))
rows = []
for f in sorted(glob.glob(os.path.join(V, "seeded", "*", "meta.json"))):
    m = json.load(open(f))
    what = m.get("what_and_needs", "").strip().split("\n")
    first = next((l for l in what if l.strip() and not l.strip().startswith("#")), "")
    first = re.sub(r"^[-*\s]*(\*\*)?(Change|What the change is|What)(\*\*)?\s*:?\s*(\*\*)?", "", first).strip()
    det = m.get("detected_by", "")
    det = re.sub(r"; C\d\d quick: theorems.*$", "", det)
    re_ = m.get("rechecked", "")
    re_ = re.sub(r" \(C\d\d quick: theorems.*$", "", re_)
    rows.append((m["id"], m["breaks_property"], first[:140], det[:150], re_[:90]))
print("| seeded change | property | what it changes (first line of the author's note) | the property's quick check when the change was first tried | the same check at the end of the fourth session |")
print("|---|---|---|---|---|")
for r in rows:
    print("| " + " | ".join(x.replace("|", "/").replace("\n", " ") for x in r) + " |")
n = len(rows)
missed = [r[0] for r in rows if "MISSED" in r[3]]
flag = [r[0] for r in rows if "no-failing-input-found" in r[3] and "with failing input" not in r[3]]
print(f"\n{n} seeded changes kept; first-try results: {n - len(missed) - len(flag)} caught with a failing input, "
      f"{len(flag)} flagged without one ({', '.join(flag)}), {len(missed)} missed ({', '.join(missed)}).")
