#!/venv/bin/python
"""Prints the kill matrix of seeded regressions (seeded/*/meta.json) as a markdown table."""
import glob, json, os
V = os.path.dirname(os.path.dirname(os.path.abspath(__file__)))
rows = []
for f in sorted(glob.glob(os.path.join(V, "seeded", "*", "meta.json"))):
    m = json.load(open(f))
    what = m.get("what_and_needs", "").split("\n")[0]
    what = what.replace("Change:", "").strip()
    det = m.get("detected_by", "")
    rows.append((m["id"], m["breaks_property"], what[:150], det[:170]))
print("| seeded change | property | what it changes (first line of the author's note) | result of the property's quick check |")
print("|---|---|---|---|")
for r in rows:
    print("| " + " | ".join(x.replace("|", "/") for x in r) + " |")
print(f"\n{len(rows)} seeded changes kept.")
