#!/venv/bin/python
"""Prints the ledger of genuine defects (known_findings.json) as the markdown table of DESIGN.md section 6."""
import json, os
V = os.path.dirname(os.path.dirname(os.path.abspath(__file__)))
d = json.load(open(os.path.join(V, "known_findings.json")))
print("| property | status | commit | what failed | witnesses (corpus/) |")
print("|---|---|---|---|---|")
for f in d["findings"]:
    wit = ", ".join(w.replace("corpus/", "") for w in f.get("witness", []))
    print(f"| {f['property']} | {f['status']} | `{f.get('commit', '-')}` | {f['what'].replace('|', '/')} | {wit} |")
print(f"\n{len(d['findings'])} entries; {sum(1 for f in d['findings'] if f['status'] == 'known')} open (status known).")
