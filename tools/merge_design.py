#!/venv/bin/python
"""usage: merge_design.py Cxx [Cxx ...]
Replaces the `### Cxx —` subsection of DESIGN.md section 5 by the as-built text in .work/design/Cxx.md
(written by whoever last reworked the property's files). Text after a line `## For section 3` in the
fragment is not merged (it is meant for section 3)."""
import os, re, sys
V = os.path.dirname(os.path.dirname(os.path.abspath(__file__)))
path = os.path.join(V, "DESIGN.md")
s = open(path).read()
for p in sys.argv[1:]:
    frag = open(os.path.join(V, ".work", "design", p + ".md")).read().strip() + "\n"
    frag = re.split(r"^#+ For section 3.*$", frag, flags=re.M)[0].rstrip() + "\n"
    if not frag.startswith(f"### {p} "):
        sys.exit(f"{p}: fragment does not start with '### {p} '")
    m = re.search(rf"^### {p} .*?(?=^### C\d\d |^-{{20,}}\s*$|^## 6\.)", s, flags=re.M | re.S)
    if not m:
        sys.exit(f"{p}: subsection not found in DESIGN.md")
    s = s[:m.start()] + frag + "\n" + s[m.end():]
    print("merged", p, len(frag.splitlines()), "lines")
open(path, "w").write(s)
