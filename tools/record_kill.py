#!/venv/bin/python
"""usage: record_kill.py <kill_all log> [...]: stores each line's verdict as meta.json["rechecked"] of the seeded change."""
import json, os, re, sys
V = os.path.dirname(os.path.dirname(os.path.abspath(__file__)))
for log in sys.argv[1:]:
    for ln in open(log):
        m = re.match(r"(\S+) (C\d\d) (\S+(?: \S+ \S+\))?) \| ?(.*)", ln.strip())
        if not m:
            continue
        sid, prop, verdict, summ = m.groups()
        p = os.path.join(V, "seeded", sid, "meta.json")
        if not os.path.exists(p):
            continue
        meta = json.load(open(p))
        meta["rechecked"] = f"{verdict} by {prop} quick at the end of the fourth session ({summ.strip()})"
        json.dump(meta, open(p, "w"), indent=1)
        print(sid, verdict)
