#!/bin/bash
# Runs every claimed check (tier $1, default quick) sequentially and prints a summary table.
cd "$(dirname "$0")/.." || exit 2
TIER="${1:-quick}"
shift
PROPS="$*"
[ -z "$PROPS" ] && PROPS=$(/venv/bin/python -c "import json;print(' '.join(c['property_id'] for c in json.load(open('MANIFEST.json'))['checks']))")
mkdir -p .work/logs
for p in $PROPS; do
  s=$(date +%s)
  ./check "$p" "$TIER" > ".work/logs/$p.$TIER.log" 2>&1
  rc=$?
  e=$(date +%s)
  echo "$p rc=$rc $((e-s))s $(grep -c '^VIOLATION' .work/logs/$p.$TIER.log) violation(s) $(grep -c '^KNOWN-FINDING' .work/logs/$p.$TIER.log) known | $(tail -1 .work/logs/$p.$TIER.log)"
done
