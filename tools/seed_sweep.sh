#!/bin/bash
# usage: tools/seed_sweep.sh "<seeds>" <props...> : runs each check quick for each seed, prints one line per run
cd "$(dirname "$0")/.." || exit 2
SEEDS="$1"; shift
mkdir -p .work/logs
for s in $SEEDS; do for p in "$@"; do
  VERIF_SEED=$s ./check "$p" quick > ".work/logs/$p.seed$s.log" 2>&1; rc=$?
  echo "seed=$s $p rc=$rc $(grep -c '^VIOLATION' .work/logs/$p.seed$s.log) violation(s) | $(tail -1 .work/logs/$p.seed$s.log | cut -c1-200)"
done; done
