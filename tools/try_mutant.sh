#!/bin/bash
# usage: tools/try_mutant.sh <patch.diff> <demo.py|-> <prop> [<prop> ...]
# Confirms a candidate regression in a scratch worktree (never /repo): the patch applies, the demo
# passes on the clean tree and fails on the changed tree, the pinned baseline still passes, and then
# runs the given checks against the changed tree.  BASELINE=0 skips the baseline run.
PATCH=$(readlink -f "$1"); DEMO="$2"; shift 2
WT=$(mktemp -d /tmp/mt_XXXXXX); rmdir "$WT"
git -C /repo worktree add -q "$WT" HEAD || exit 2
trap 'git -C /repo worktree remove --force "$WT" >/dev/null 2>&1' EXIT
if [ "$DEMO" != "-" ]; then
  DEMO=$(readlink -f "$DEMO")
  ( cd /tmp && HAPTOOLS_REPO="$WT" PYTHONPATH="$WT" timeout 900 /venv/bin/python "$DEMO" >/dev/null 2>&1 ); echo "demo on clean tree: exit $?"
fi
git -C "$WT" apply "$PATCH" 2>/dev/null || git -C "$WT" apply --3way "$PATCH" 2>/dev/null || { echo "patch does not apply"; exit 2; }
if [ "$DEMO" != "-" ]; then
  ( cd /tmp && HAPTOOLS_REPO="$WT" PYTHONPATH="$WT" timeout 900 /venv/bin/python "$DEMO" >/dev/null 2>&1 ); echo "demo on changed tree: exit $?"
fi
if [ "${BASELINE:-1}" = "1" ]; then
  "$(dirname "$0")/baseline.sh" "$WT" 2>&1 | grep -v WARNING | head -5
fi
cd "$(dirname "$0")/.."
for p in "$@"; do
  HAPTOOLS_REPO="$WT" ./check "$p" "${TIER:-quick}" 2>&1 | grep -v WARNING | grep -E "VIOLATION|KNOWN|HARNESS|^C[0-9]+ " | cut -c1-400
done
