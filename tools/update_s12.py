#!/venv/bin/python
"""Regenerates the kill-matrix table of DESIGN.md section 12 (between the KILL-MATRIX markers) from seeded/*/meta.json."""
import os, subprocess
V = os.path.dirname(os.path.dirname(os.path.abspath(__file__)))
p = os.path.join(V, "DESIGN.md")
s = open(p).read()
a = s.index("<!-- KILL-MATRIX-BEGIN -->") + len("<!-- KILL-MATRIX-BEGIN -->")
b = s.index("<!-- KILL-MATRIX-END -->")
tab = subprocess.run(["/venv/bin/python", os.path.join(V, "tools", "kill_matrix.py")], capture_output=True, text=True).stdout
tab = "\n".join(l for l in tab.splitlines() if not l.startswith("WARNING"))
open(p, "w").write(s[:a] + "\n" + tab.strip() + "\n" + s[b:])
print("section 12 table updated")
