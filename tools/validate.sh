#!/bin/bash
# Validates MANIFEST.json and every evidence file against the schemas; checks proof-level invariants.
cd "$(dirname "$0")/.." || exit 2
python3-vt - <<'PY'
import json, glob, sys, jsonschema
ok = True
m = json.load(open('MANIFEST.json'))
jsonschema.validate(m, json.load(open('/root/.vp/MANIFEST.schema.json')))
es = json.load(open('/root/.vp/EVIDENCE.schema.json'))
claimed = [c['property_id'] for c in m['checks']]
na = [c['property_id'] for c in m.get('not_applicable', [])]
allp = [json.loads(l)['id'] for l in open('properties.jsonl')]
for p in allp:
    if (p in claimed) == (p in na):
        print("property neither/both claimed and not_applicable:", p); ok = False
for p in claimed:
    try:
        e = json.load(open(f'evidence/{p}.json'))
        jsonschema.validate(e, es)
        c = e['coverage']
        if c['obligations'] != c['discharged']:
            print(p, "discharged != obligations", c['discharged'], c['obligations']); ok = False
        if e.get('violations'):
            print(p, "evidence records violations"); ok = False
        if c.get('repo') != '/repo':
            print(p, "evidence not from /repo"); ok = False
    except Exception as ex:
        print(p, "evidence problem:", str(ex)[:200]); ok = False
print("claimed", len(claimed), "not_applicable", len(na), "OK" if ok else "PROBLEMS")
sys.exit(0 if ok else 1)
PY
